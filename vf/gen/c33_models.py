"""C33 workload: template models with known traceable addresses, and constraint maps as finite maps.

Model spec (every node is turned into a generative function `x: float scalar -> float scalar`):
  ("leaf", dist)                      a distribution call (address path = () relative to its call site)
  ("static", [(addr_tuple, child)])   @gen function; child traced at addr (str or tuple of str)
  ("vmap"|"repeat"|"iterate"|"iterate_final"|"scan"|"accumulate"|"reduce", inner, n)
  ("mask", inner)   ("map"|"contramap"|"dimap", inner)
  ("switch", [branches])   ("or_else", a, b)
Reference (from the docstrings): vector combinators, mask and dimap add no *static* address level
(only index levels); a switch / or_else can trace the addresses of every branch; a static function
traces each child below its address.  `paths(spec)` = set of static address tuples at which the
model traces a random choice.
"""

from __future__ import annotations

import numpy as np

DISTS = ["normal", "uniform", "flip", "categorical", "normal_vec"]
VEC = ("vmap", "repeat", "iterate", "iterate_final", "scan", "accumulate", "reduce")
WRAP = ("mask", "map", "contramap", "dimap")
NAMES = ["a", "b", "c", "x", "y", "z", "mu", "obs", "k0", "k1"]


# ------------------------------------------------------------------ spec generation
def gen_model(rng, max_depth):
    def ri(n):
        return int(rng.integers(n))

    def static(depth, min_children=1):
        # NB: one @gen function never mixes string and tuple addresses (the library cannot flatten
        # such a trace: jax refuses to sort the mixed dict keys) - see notes/C33_findings.md
        n = min_children + ri(3)
        names = list(NAMES)
        rng.shuffle(names)
        tuple_mode = ri(4) == 0
        children = []
        i = 0
        while len(children) < n and i < len(names):
            nm = names[i]
            i += 1
            if not tuple_mode:
                addr = (nm,)
            else:
                r = ri(4)
                tup = [a for a, _ in children]
                if r == 0 and tup:
                    addr = (tup[ri(len(tup))][0], nm)  # shared first component: ("p","a") and ("p","b")
                elif r == 1:
                    addr = (nm, names[-1 - ri(2)], "t")
                else:
                    addr = (nm, names[-1 - ri(2)])
            # prefix-freedom among sibling addresses
            if any(a[: min(len(a), len(addr))] == addr[: min(len(a), len(addr))] for a, _ in children):
                continue
            children.append((addr, node(depth + 1)))
        return ("static", children)

    def uniform_inner(depth):
        # inner of a combinator: a static function, another combinator, or (sometimes) a bare distribution
        r = ri(10)
        if depth >= max_depth:
            return static(depth) if r < 7 else ("leaf", DISTS[ri(2)])
        if r < 5:
            return static(depth)
        if r < 7:
            return ("leaf", DISTS[ri(2)])
        return combinator(depth)

    def combinator(depth):
        k = ri(12)
        if k <= 6:
            return (VEC[k], uniform_inner(depth + 1), 1 + ri(3))
        if k == 7:
            return ("mask", uniform_inner(depth + 1))
        if k == 8:
            return (WRAP[1 + ri(3)], uniform_inner(depth + 1))
        if k in (9, 10):
            nb = 1 + ri(3)
            return ("switch", [branch(depth + 1) for _ in range(nb)])
        return ("or_else", branch(depth + 1), branch(depth + 1))

    def branch(depth):
        # switch branches: static functions (overlapping names across branches happen naturally)
        return static(depth) if ri(4) else uniform_inner(depth)

    def node(depth):
        if depth >= max_depth:
            return ("leaf", DISTS[ri(len(DISTS))])
        r = ri(10)
        if r < 4:
            return ("leaf", DISTS[ri(len(DISTS))])
        if r < 6:
            return static(depth)
        return combinator(depth)

    r = ri(20)
    if r == 0:
        return ("leaf", DISTS[ri(2)])
    if r < 12:
        return static(0, min_children=2)
    return combinator(0)


def paths(spec):
    k = spec[0]
    if k == "leaf":
        return {()}
    if k == "static":
        out = set()
        for addr, ch in spec[1]:
            out |= {tuple(addr) + p for p in paths(ch)}
        return out
    if k in VEC or k in WRAP:
        return paths(spec[1])
    if k == "switch":
        out = set()
        for b in spec[1]:
            out |= paths(b)
        return out
    if k == "or_else":
        return paths(spec[1]) | paths(spec[2])
    raise ValueError(k)


def vector_levels(spec, prefix=()):
    """static prefixes below which the model nests choices under an index (documented index positions)."""
    k = spec[0]
    out = set()
    if k == "static":
        for addr, ch in spec[1]:
            out |= vector_levels(ch, prefix + tuple(addr))
    elif k in VEC:
        out.add(prefix)
        out |= vector_levels(spec[1], prefix)
    elif k in WRAP:
        out |= vector_levels(spec[1], prefix)
    elif k == "switch":
        for b in spec[1]:
            out |= vector_levels(b, prefix)
    elif k == "or_else":
        out |= vector_levels(spec[1], prefix) | vector_levels(spec[2], prefix)
    return out


def kinds(spec, acc=None):
    acc = set() if acc is None else acc
    k = spec[0]
    acc.add(k)
    if k == "static":
        for _, ch in spec[1]:
            kinds(ch, acc)
    elif k in VEC or k in WRAP:
        kinds(spec[1], acc)
    elif k == "switch":
        for b in spec[1]:
            kinds(b, acc)
    elif k == "or_else":
        kinds(spec[1], acc)
        kinds(spec[2], acc)
    return acc


def show(spec):
    k = spec[0]
    if k == "leaf":
        return spec[1]
    if k == "static":
        return "{" + ", ".join("/".join(a) + ": " + show(c) for a, c in spec[1]) + "}"
    if k in VEC:
        return f"{k}[{spec[2]}]({show(spec[1])})"
    if k in WRAP:
        return f"{k}({show(spec[1])})"
    if k == "switch":
        return "switch(" + " | ".join(show(b) for b in spec[1]) + ")"
    return f"or_else({show(spec[1])}, {show(spec[2])})"


# ------------------------------------------------------------------ building real generative functions
def build_model(spec):
    """spec -> genjax generative function of one float argument."""
    import genjax
    import jax.numpy as jnp

    def dist_call(d, x):
        if d == "normal":
            return genjax.normal, (x, 1.0)
        if d == "uniform":
            return genjax.uniform, (x - 1.0, x + 1.0)
        if d == "flip":
            return genjax.flip, (0.5,)
        if d == "categorical":
            return genjax.categorical, (jnp.zeros(3) + 0.1 * x,)
        return genjax.normal, (jnp.zeros(2) + x, jnp.ones(2))

    def tofloat(v):
        return jnp.sum(jnp.asarray(v, dtype=jnp.float32))

    def u(s):
        k = s[0]
        if k == "leaf":
            d = s[1]
            return dist_call(d, 0.0)[0].dimap(pre=lambda x, d=d: dist_call(d, x)[1], post=lambda a, xf, r: tofloat(r))
        if k == "static":
            calls = [(addr if len(addr) > 1 else addr[0], ch, (u(ch) if ch[0] != "leaf" else None)) for addr, ch in s[1]]

            @genjax.gen
            def f(x):
                acc = x
                for addr, ch, g in calls:
                    if g is None:
                        dist, args = dist_call(ch[1], acc)
                        v = dist(*args) @ addr
                    else:
                        v = g(acc) @ addr
                    acc = jnp.tanh(acc + 0.1 * tofloat(v))
                return acc

            return f
        if k == "vmap":
            n = s[2]
            return u(s[1]).vmap(in_axes=(0,)).dimap(pre=lambda x: (jnp.ones(n) * x,), post=lambda a, xf, r: jnp.sum(r))
        if k == "repeat":
            return u(s[1]).repeat(n=s[2]).map(lambda r: jnp.sum(r))
        if k == "iterate":
            return u(s[1]).iterate(n=s[2]).map(lambda r: r[-1])
        if k == "iterate_final":
            return u(s[1]).iterate_final(n=s[2])
        if k == "scan":
            n = s[2]
            kern = u(s[1]).dimap(pre=lambda c, _x: (c,), post=lambda a, xf, r: (r, r))
            return kern.scan(n=n).dimap(pre=lambda x: (x, None), post=lambda a, xf, r: r[0])
        if k == "accumulate":
            n = s[2]
            kern = u(s[1]).contramap(lambda c, a: (c + a,))
            return kern.accumulate().dimap(pre=lambda x: (x, jnp.ones(n) * 0.1), post=lambda a, xf, r: r[-1])
        if k == "reduce":
            n = s[2]
            kern = u(s[1]).contramap(lambda c, a: (c + a,))
            return kern.reduce().contramap(lambda x: (x, jnp.ones(n) * 0.1))
        if k == "mask":
            return u(s[1]).mask().dimap(pre=lambda x: (x > -100.0, x), post=lambda a, xf, r: r.value)
        if k == "map":
            return u(s[1]).map(lambda r: r * 0.5)
        if k == "contramap":
            return u(s[1]).contramap(lambda x: (x + 1.0,))
        if k == "dimap":
            return u(s[1]).dimap(pre=lambda x: (x * 2.0,), post=lambda a, xf, r: r - 1.0)
        if k == "switch":
            bs = [u(b) for b in s[1]]
            nb = len(bs)
            sw = genjax.switch(*bs)
            return sw.contramap(lambda x: (jnp.clip(jnp.floor(jnp.abs(x) * 3.0).astype(jnp.int32), 0, nb - 1), *[(x,)] * nb))
        if k == "or_else":
            return u(s[1]).or_else(u(s[2])).contramap(lambda x: (x > 0.0, (x,), (x,)))
        raise ValueError(k)

    return u(spec)


# ------------------------------------------------------------------ constraint maps as finite maps
class Entry:
    __slots__ = ("static", "addr", "value", "cls", "idxform", "valid")

    def __init__(self, static, addr, value, cls, idxform, valid):
        self.static, self.addr, self.value, self.cls, self.idxform, self.valid = static, addr, value, cls, idxform, valid

    def show(self):
        def c(a):
            if isinstance(a, str):
                return a
            if isinstance(a, slice):
                return ":"
            return "idx" + str(np.asarray(a).tolist())

        return "/".join(c(a) for a in self.addr) + ("" if self.valid else "!")


def _is_prefix(a, b):
    return len(a) <= len(b) and tuple(b[: len(a)]) == tuple(a)


def gen_entries(rng, P, vec_prefixes, counter):
    """A list of Entry with pairwise prefix-free static paths (same path allowed with distinct scalar indices)."""
    import jax.numpy as jnp

    def ri(n):
        return int(rng.integers(n))

    Pl = sorted(P)
    firsts = {p[0] for p in Pl if p}
    all_prefixes = {p[:i] for p in Pl for i in range(len(p) + 1)}
    n = 1 + ri(6)
    chosen = []  # static paths
    entries = []
    tries = 0
    p_valid = [0.15, 0.5, 0.85][ri(3)]
    while len(entries) < n and tries < 40:
        tries += 1
        if rng.random() < p_valid:
            s, cls = Pl[ri(len(Pl))], "valid"
        else:
            k = ri(6)
            base = Pl[ri(len(Pl))]
            if k == 0:
                s, cls = (f"q{ri(3)}",), "unknown-top"
            elif k == 1:
                s, cls = base[:-1] + ("zz",), "wrong-last"
            elif k == 2:
                s, cls = base + ("deeper",), "below-a-leaf"
            elif k == 3 and len(base) >= 2:
                s, cls = base[: 1 + ri(len(base) - 1)], "value-at-interior"
            elif k == 4:
                other = Pl[ri(len(Pl))]
                s, cls = base[:-1] + (other[-1] if other else "w",), "sibling-swap"
            else:
                s, cls = (f"q{ri(3)}", "r"), "unknown-nested"
            if s in P:
                cls = "valid"
            elif cls in ("wrong-last", "sibling-swap") and s in all_prefixes:
                cls = "value-at-interior"
        if s == ():
            if entries:
                continue
            # value at the root: only as a single-entry map
            counter[0] += 1
            return [Entry((), [], np.float32(counter[0] + 0.5), "valid" if () in P else "root-value", "none", () in P)]
        dup = [c for c in chosen if c == s]
        if any((_is_prefix(c, s) or _is_prefix(s, c)) and c != s for c in chosen):
            continue
        # index decoration
        m = len(s)
        r = rng.random()
        if dup:
            form = "int"
        elif r < 0.4:
            form = "none"
        elif r < 0.6:
            form = "int"
        elif r < 0.7:
            form = "scalar-array"
        elif r < 0.85:
            form = "array"
        elif r < 0.93:
            form = "slice"
        else:
            form = "int+array"
        counter[0] += 1
        vid = counter[0]
        if form == "none":
            addr = list(s)
            value = np.float32(vid + 0.5) if ri(2) else (vid + 0.125 * np.arange(1, 4)).astype(np.float32)
        else:
            # where: at a documented vector level if the address has one (70%), else anywhere (incl. front, after the last component)
            natural = [len(v) for v in vec_prefixes if _is_prefix(v, s)]
            pos = natural[ri(len(natural))] if (natural and rng.random() < 0.7) else ri(m + 1)
            if dup:
                # same position and form as the first entry of that path, different index
                first = next(e for e in entries if e.static == s)
                if first.idxform != "int":
                    continue
                pos = next(i for i, a in enumerate(first.addr) if not isinstance(a, str))
                used = {e.addr[pos] for e in entries if e.static == s}
                comps = [next(i for i in range(16) if i not in used)]
            elif form == "int":
                comps = [ri(3)]
            elif form == "scalar-array":
                comps = [jnp.asarray(ri(3), dtype=jnp.int32)]
            elif form == "array":
                comps = [jnp.asarray([0, 2] if ri(2) else [1, 0], dtype=jnp.int32)]
            elif form == "slice":
                comps = [slice(None)]
            else:
                comps = [ri(2), jnp.asarray([0, 1], dtype=jnp.int32)]
            addr = list(s[:pos]) + comps + list(s[pos:])
            if form in ("array", "int+array"):
                value = (vid + 0.25 * np.arange(1, 3)).astype(np.float32)
            elif form == "slice":
                value = (vid + 0.125 * np.arange(1, 4)).astype(np.float32)
            else:
                value = np.float32(vid + 0.5)
        chosen.append(s)
        entries.append(Entry(s, addr, value, cls, form, s in P))
    return entries


BUILDERS = ["or_fold", "at_chain", "dict", "entry", "grouped", "jit", "vmap_built"]


def build_map(builder, entries, rng, values=None):
    """Real ChoiceMap denoting {entry.addr: entry.value}. `values` overrides the entry values (jit arm)."""
    import functools

    import jax
    import jax.numpy as jnp
    from genjax import ChoiceMap
    from genjax import ChoiceMapBuilder as C

    vals = [jnp.asarray(e.value) for e in entries] if values is None else list(values)
    order = list(range(len(entries)))
    rng.shuffle(order)

    def one(i):
        e = entries[i]
        if not e.addr:
            return ChoiceMap.choice(vals[i])
        return C[tuple(e.addr)].set(vals[i])

    if builder in ("or_fold", "jit"):
        return functools.reduce(lambda a, b: a | b, [one(i) for i in order])
    if builder == "at_chain":
        chm = C.n()
        for i in order:
            e = entries[i]
            chm = ChoiceMap.choice(vals[i]) if not e.addr else chm.at[tuple(e.addr)].set(vals[i])
        return chm
    if builder == "dict":
        if all(isinstance(a, str) for e in entries for a in e.addr) and all(e.addr for e in entries):
            d = {}
            for i in order:
                e = entries[i]
                if len(e.addr) >= 2 and i % 2 == 0:
                    # nested dict spelling
                    cur = d
                    okk = True
                    for a in e.addr[:-1]:
                        nxt = cur.setdefault(a, {})
                        if not isinstance(nxt, dict):
                            okk = False
                            break
                        cur = nxt
                    if okk and e.addr[-1] not in cur:
                        cur[e.addr[-1]] = vals[i]
                        continue
                key = tuple(e.addr) if len(e.addr) > 1 else e.addr[0]
                d[key] = vals[i]
            # a nested dict and a tuple key may collide on the first component: fall back if so
            firsts = [k if isinstance(k, str) else k[0] for k in d]
            if len(set(firsts)) == len(firsts):
                return ChoiceMap.d(d)
        return build_map("or_fold", entries, rng, values)
    if builder == "entry":
        if all(e.addr for e in entries) and rng.random() < 0.5:
            return ChoiceMap.from_mapping([(tuple(entries[i].addr), vals[i]) for i in order])
        return functools.reduce(lambda a, b: a | b, [ChoiceMap.entry(vals[i], *entries[i].addr) if entries[i].addr else ChoiceMap.choice(vals[i]) for i in order])
    if builder == "grouped":
        groups = {}
        rest = []
        for i in order:
            e = entries[i]
            if e.addr and isinstance(e.addr[0], str) and len(e.addr) >= 2:
                groups.setdefault(e.addr[0], []).append(i)
            else:
                rest.append(i)
        parts = [one(i) for i in rest]
        for first, idxs in groups.items():
            sub = functools.reduce(lambda a, b: a | b, [C[tuple(entries[i].addr[1:])].set(vals[i]) for i in idxs])
            parts.append(C[first].set(sub))
        return functools.reduce(lambda a, b: a | b, parts)
    if builder == "vmap_built":
        parts = []
        for i in order:
            e = entries[i]
            if e.idxform == "array":
                pos = next(j for j, a in enumerate(e.addr) if not isinstance(a, (str, int, slice)))
                pre, post = e.addr[:pos], e.addr[pos + 1 :]
                inner = jax.vmap(lambda ix, v: C[(ix, *post)].set(v))(e.addr[pos], vals[i])
                parts.append(C[tuple(pre)].set(inner) if pre else inner)
            else:
                parts.append(one(i))
        return functools.reduce(lambda a, b: a | b, parts)
    raise ValueError(builder)


def scalar_lookups(entry):
    """[(addr with scalar ints instead of index arrays, expected value)] for reading an entry back."""
    arr_pos = [j for j, a in enumerate(entry.addr) if not isinstance(a, (str, int, slice)) and np.ndim(a) == 1]
    sc = [int(a) if (not isinstance(a, (str, int, slice)) and np.ndim(a) == 0) else a for a in entry.addr]
    if not arr_pos:
        return [(tuple(sc), np.asarray(entry.value))]
    j = arr_pos[0]
    out = []
    for t, ix in enumerate(np.asarray(entry.addr[j]).tolist()):
        a = list(sc)
        a[j] = int(ix)
        out.append((tuple(a), np.asarray(entry.value)[t]))
    return out


def lookup(chm, addr):
    """(present, value) of a finite-map read through the public lookup interface."""
    from genjax import Mask

    sub = chm(addr) if addr else chm
    v = sub.get_value()
    if v is None:
        return False, None
    if isinstance(v, Mask):
        flag = np.asarray(v.primal_flag())
        if not np.all(flag):
            return False, None
        v = v.value
    return True, np.asarray(v)


def float_census(chm):
    """Sorted float32 data held anywhere in a choice map (index components are ints, flags bools)."""
    import jax.tree_util as jtu

    out = []
    for leaf in jtu.tree_leaves(chm):
        a = np.asarray(leaf)
        if a.dtype.kind == "f":
            out.extend(a.ravel().tolist())
    return sorted(out)


# ------------------------------------------------------------------ structural read-back
class UnknownNode(Exception):
    pass


def _norm_comp(a):
    if isinstance(a, str):
        return a
    if isinstance(a, slice):
        return None  # a full slice is documented as a no-op index level
    arr = np.asarray(a)
    if arr.ndim == 0:
        return ("i", int(arr))
    return ("a", tuple(int(x) for x in arr.ravel().tolist()))


def norm_addr(addr):
    return tuple(c for c in (_norm_comp(a) for a in addr) if c is not None)


def enumerate_map(chm, static=False):
    """{normalised address: float32 value} of a ChoiceMap made of Static / Indexed / Or / Choice
    (/ Switch) nodes. Raises UnknownNode for anything else, in which case the caller falls back to
    the representation-free data census.  static=True reads the *static* content: masked-off values
    and every branch of a Switch node count (what a structural check such as invalid_subset sees)."""
    from genjax import Mask
    from genjax._src.core.generative import choice_map as cm

    out = {}
    info = {"switch_nodes": 0, "empty_switch_nodes": 0}

    def rec(c, prefix):
        if isinstance(c, cm.Choice):
            v = c.v
            if isinstance(v, Mask):
                if not static and not np.all(np.asarray(v.primal_flag())):
                    return 0
                v = v.value
            val = np.asarray(v, dtype=np.float32)
            if prefix in out:
                if not static or out[prefix].shape != val.shape or not np.array_equal(out[prefix], val):
                    raise UnknownNode("duplicate address")
            out[prefix] = val
            return 1
        if isinstance(c, cm.Static):
            return sum(rec(c(k), prefix + (k,)) for k in c.mapping.keys())
        if isinstance(c, cm.Indexed):
            return rec(c.c, prefix + (_norm_comp(c.addr),))
        if isinstance(c, cm.Or):
            return rec(c.c1, prefix) + rec(c.c2, prefix)
        if static and isinstance(c, cm.Switch):
            n = sum(rec(b, prefix) for b in c.chms)
            info["switch_nodes"] += 1
            if n == 0:
                info["empty_switch_nodes"] += 1
            return n
        raise UnknownNode(type(c).__name__)

    rec(chm, ())
    enumerate_map.last_info = info
    return out


def expected_map(entries):
    return {norm_addr(e.addr): np.asarray(e.value, dtype=np.float32) for e in entries}


def same_finite_map(a, b):
    if set(a) != set(b):
        return False
    return all(a[k].shape == b[k].shape and np.array_equal(a[k], b[k]) for k in a)
