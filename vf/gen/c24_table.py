"""C24 workload table: a hand-written valid parameter generator, a support predicate and the
TFP constructor for EVERY TFP-backed distribution wrapper exported by
`genjax.generative_functions.distributions` (46 names) plus `inverse_gaussian` (defined in the
wrapper module, not re-exported).

Nothing here imports genjax.  The oracle constructors are the TFP (JAX substrate) classes
themselves, looked up by name at run time, called with *keyword* parameters only (so that an
argument-order mistake in a wrapper cannot be mirrored by the oracle).

A *form* is one parameterisation of a distribution:
    Form(tag, params=[(tfp_kwarg_name, generator_kind), ...], npos=k, static={...})
`params` is in the positional order of the wrapper; the first `npos` may be passed positionally.
`static` are non-array keyword arguments (python values) passed by keyword in every arm that
uses keywords, and to the oracle.
"""

from __future__ import annotations

from dataclasses import dataclass, field

import numpy as np

F32 = np.float32
K_EVENT = 3  # length of vector-valued parameters / events


@dataclass
class Form:
    tag: str
    params: list
    npos: int
    static: dict = field(default_factory=dict)
    bare: bool = False  # the positional arm goes through implicit_logit_warning's bare-argument path


@dataclass
class Entry:
    name: str          # genjax wrapper name
    tfd: object        # TFP class name (str) or a callable (tfd, **kw) -> distribution for flip
    forms: list
    support: str       # name of a predicate in SUPPORT
    event_ndims: int = 0
    dtype: str = "float32"   # documented dtype of a sample
    exported: bool = True
    cost: str = "light"      # filled from COST below


# ----------------------------------------------------------------------------- generators


def _choice(rng, xs, size):
    xs = np.asarray(xs, dtype=np.float64)
    return xs[rng.integers(0, len(xs), size=size)]


def gen_param(kind, rng, bs, edge=False):
    """One parameter array (float32) of batch shape `bs` (+ event dims for vector kinds)."""
    bs = tuple(bs)
    if kind == "real":
        x = _choice(rng, [0.0, -300.0, 250.0, 1e-3], bs) if edge else rng.normal(size=bs) * 2.5
    elif kind == "pos":  # scales, rates
        x = _choice(rng, [0.02, 60.0, 1.0], bs) if edge else np.exp(rng.uniform(-1.5, 1.5, size=bs))
    elif kind == "conc":  # concentrations / shapes
        x = _choice(rng, [0.08, 25.0, 1.0], bs) if edge else np.exp(rng.uniform(-1.0, 1.5, size=bs))
    elif kind == "conc_gt1":  # where small values make the density degenerate (kumaraswamy, weibull)
        x = _choice(rng, [0.6, 12.0, 1.0], bs) if edge else np.exp(rng.uniform(-0.4, 1.5, size=bs))
    elif kind == "prob":
        x = _choice(rng, [1e-3, 0.999, 0.5], bs) if edge else rng.uniform(0.05, 0.95, size=bs)
    elif kind == "prob_hi":  # success probabilities for geometric (small probs => huge samples)
        x = _choice(rng, [0.05, 0.999, 0.5], bs) if edge else rng.uniform(0.15, 0.95, size=bs)
    elif kind == "logit":
        x = _choice(rng, [-7.0, 7.0, 0.0], bs) if edge else rng.normal(size=bs) * 1.5
    elif kind == "logit_hi":
        x = _choice(rng, [-2.5, 7.0, 0.0], bs) if edge else rng.uniform(-1.5, 3.0, size=bs)
    elif kind == "lograte":
        x = _choice(rng, [-3.0, 3.5, 0.0], bs) if edge else rng.uniform(-1.5, 2.0, size=bs)
    elif kind == "rate":
        x = _choice(rng, [0.05, 40.0, 1.0], bs) if edge else np.exp(rng.uniform(-1.5, 2.0, size=bs))
    elif kind == "count":
        x = _choice(rng, [1.0, 60.0, 2.0], bs) if edge else rng.integers(1, 15, size=bs).astype(np.float64)
    elif kind == "df":
        x = _choice(rng, [0.7, 80.0, 1.0, 2.0], bs) if edge else np.exp(rng.uniform(0.0, 2.5, size=bs))
    elif kind == "df_hi":  # > 2 so that moments used by samplers exist
        x = _choice(rng, [2.5, 80.0], bs) if edge else np.exp(rng.uniform(1.0, 3.0, size=bs))
    elif kind == "power":  # zipf exponent > 1
        x = _choice(rng, [1.3, 9.0, 2.0], bs) if edge else 1.0 + np.exp(rng.uniform(-0.7, 1.3, size=bs))
    elif kind == "tail":  # LambertW tailweight in [0, 1)
        x = _choice(rng, [0.0, 0.6, 0.1], bs) if edge else rng.uniform(0.0, 0.5, size=bs)
    elif kind == "kappa":  # directional concentration
        x = _choice(rng, [0.0, 40.0, 1.0], bs) if edge else np.exp(rng.uniform(-1.5, 2.0, size=bs))
    elif kind == "low":
        x = _choice(rng, [-50.0, 0.0, -1e-2], bs) if edge else rng.uniform(-4.0, 0.0, size=bs)
    elif kind == "high":
        x = _choice(rng, [50.0, 1e-2, 3.0], bs) if edge else rng.uniform(0.5, 4.0, size=bs)
    elif kind == "realvec":
        x = rng.normal(size=bs + (K_EVENT,)) * (40.0 if edge else 2.0)
    elif kind == "posvec":
        x = _choice(rng, [0.05, 30.0, 1.0], bs + (K_EVENT,)) if edge else np.exp(rng.uniform(-1.2, 1.2, size=bs + (K_EVENT,)))
    elif kind == "logitvec":
        x = _choice(rng, [-6.0, 6.0, 0.0], bs + (K_EVENT,)) if edge else rng.normal(size=bs + (K_EVENT,)) * 1.5
    elif kind == "simplex":
        a = np.asarray([0.05, 1.0, 1.0]) if edge else np.ones(K_EVENT) * 2.0
        x = rng.dirichlet(a, size=bs) if bs else rng.dirichlet(a)
        x = np.clip(x, 1e-4, None)
        x = x / x.sum(-1, keepdims=True)
    elif kind == "unitvec":
        x = rng.normal(size=bs + (K_EVENT,))
        if edge:
            x = np.zeros(bs + (K_EVENT,))
            x[..., int(rng.integers(K_EVENT))] = 1.0 if rng.random() < 0.5 else -1.0
        x = x / np.linalg.norm(x, axis=-1, keepdims=True)
    elif kind == "spd":
        a = rng.normal(size=bs + (K_EVENT, K_EVENT))
        x = a @ np.swapaxes(a, -1, -2) / K_EVENT + np.eye(K_EVENT) * (0.05 if edge else 0.5)
    else:
        raise KeyError(kind)
    return np.asarray(x, dtype=F32)


SUPPORT_DETERMINING = {"count", "low", "high"}  # kept when drawing the second parameter set


# ----------------------------------------------------------------------------- support predicates
# pred(v, params) -> bool (all elements).  Closed supports (a float32 sampler may land exactly on
# a boundary), NaN is never in a support, +-inf is allowed on unbounded sides.


def _f(v):
    return np.asarray(v, dtype=np.float64)


def _isint(v):
    v = _f(v)
    with np.errstate(invalid="ignore"):
        return np.where(np.isfinite(v), v == np.floor(v), False)


def _bc(v, p, event_ndims=0):
    """Broadcast a batch-shaped parameter against a value with leading sample dims."""
    p = _f(p)
    return p


def s_real(v, p):
    return bool(np.all(~np.isnan(_f(v))))


def s_nonneg(v, p):
    v = _f(v)
    return bool(np.all(~np.isnan(v) & (v >= 0)))


def s_unit(v, p):
    v = _f(v)
    return bool(np.all(~np.isnan(v) & (v >= 0) & (v <= 1)))


def s_bool(v, p):
    return np.asarray(v).dtype == np.bool_


def s_bit(v, p):
    v = _f(v)
    return bool(np.all((v == 0) | (v == 1)))


def s_nat(v, p):
    v = _f(v)
    return bool(np.all(_isint(v) & (v >= 0)))


def s_int(v, p):
    return bool(np.all(_isint(v)))


def s_pos_int(v, p):
    v = _f(v)
    return bool(np.all(_isint(v) & (v >= 1)))


def s_upto_count(v, p):
    v = _f(v)
    n = _f(p["total_count"])
    return bool(np.all(_isint(v) & (v >= 0) & (v <= n)))


def s_category(v, p):
    v = _f(v)
    return bool(np.all(_isint(v) & (v >= 0) & (v < K_EVENT)))


def s_simplex(v, p):
    v = _f(v)
    return bool(np.all(~np.isnan(v) & (v >= 0)) and np.all(np.abs(v.sum(-1) - 1.0) < 2e-3))


def s_countvec(v, p):
    v = _f(v)
    n = _f(p["total_count"])
    return bool(np.all(_isint(v) & (v >= 0)) and np.all(np.abs(v.sum(-1) - n) < 0.5))


def s_sphere(v, p):
    v = _f(v)
    return bool(np.all(~np.isnan(v)) and np.all(np.abs(np.linalg.norm(v, axis=-1) - 1.0) < 2e-3))


def s_interval(v, p):
    v = _f(v)
    lo, hi = _f(p["low"]), _f(p["high"])
    t = 1e-5 * (1.0 + np.abs(lo) + np.abs(hi))
    return bool(np.all(~np.isnan(v) & (v >= lo - t) & (v <= hi + t)))


def s_ge_loc(v, p):
    v = _f(v)
    loc = _f(p["loc"])
    t = 1e-5 * (1.0 + np.abs(loc))
    return bool(np.all(~np.isnan(v) & (v >= loc - t)))


def s_circle(v, p):
    v = _f(v)
    loc = _f(p["loc"])
    t = 1e-4 * (1.0 + np.abs(loc))
    return bool(np.all(~np.isnan(v) & (np.abs(v - loc) <= np.pi + t)))


def s_realvec(v, p):
    return bool(np.all(~np.isnan(_f(v))))


SUPPORT = {k[2:]: f for k, f in list(globals().items()) if k.startswith("s_") and callable(f)}


# ----------------------------------------------------------------------------- in-support values
# Constraint values for assess / importance / update are drawn here (numpy), not from the
# distribution: log-density comparisons do not need distributional samples, tails get covered,
# and no (expensive) TFP sampler is needed on the oracle side.


def gen_value(support, rng, p, shape, dtype, boundary=False):
    """A value of array shape `shape` (= sample_shape + batch_shape [+ event]) inside the support
    named `support` for parameters `p` (batch-shaped numpy arrays)."""
    shape = tuple(shape)
    g = lambda name: np.asarray(p[name], dtype=np.float64)  # noqa: E731
    if support == "real" or support == "realvec":
        c = 0.0
        if "loc" in p:
            c = g("loc")
        x = c + rng.standard_t(3, size=shape) * 1.5
    elif support == "nonneg":
        x = np.exp(rng.normal(size=shape) * 1.2)
        if boundary and rng.random() < 0.3:
            x = np.where(rng.random(size=shape) < 0.3, 0.0, x)
    elif support == "unit":
        x = rng.uniform(0.01, 0.99, size=shape)
        if boundary and rng.random() < 0.3:
            x = np.where(rng.random(size=shape) < 0.3, rng.integers(0, 2, size=shape).astype(float), x)
    elif support == "bool":
        x = rng.random(size=shape) < 0.5
    elif support == "bit":
        x = rng.integers(0, 2, size=shape)
    elif support == "nat":
        x = rng.integers(0, 12, size=shape)
    elif support == "int":
        x = rng.integers(-6, 7, size=shape)
    elif support == "pos_int":
        x = rng.integers(1, 12, size=shape)
    elif support == "upto_count":
        n = np.broadcast_to(g("total_count"), shape)
        x = np.floor(rng.random(size=shape) * (n + 1))
        x = np.minimum(x, n)
    elif support == "category":
        x = rng.integers(0, K_EVENT, size=shape)
    elif support == "simplex":
        x = rng.dirichlet(np.ones(K_EVENT) * 1.5, size=shape[:-1])
        x = np.clip(x, 1e-3, None)
        x = x / x.sum(-1, keepdims=True)
    elif support == "countvec":
        n = np.broadcast_to(g("total_count"), shape[:-1])
        flat = [rng.multinomial(int(k), rng.dirichlet(np.ones(K_EVENT))) for k in n.reshape(-1)]
        x = np.asarray(flat, dtype=np.float64).reshape(shape)
    elif support == "sphere":
        x = rng.normal(size=shape)
        x = x / np.linalg.norm(x, axis=-1, keepdims=True)
    elif support == "interval":
        lo = np.broadcast_to(g("low"), shape)
        hi = np.broadcast_to(g("high"), shape)
        x = lo + (hi - lo) * rng.uniform(0.02, 0.98, size=shape)
    elif support == "ge_loc":
        x = g("loc") + np.exp(rng.normal(size=shape) * 1.2)
    elif support == "circle":
        x = g("loc") + rng.uniform(-3.1, 3.1, size=shape)
    else:
        raise KeyError(support)
    return np.asarray(x).astype(dtype)


# ----------------------------------------------------------------------------- the table


def _flip_ctor(tfd, p):
    import jax.numpy as jnp

    return tfd.Bernoulli(probs=p, dtype=jnp.bool_)


def table():
    E, Fm = Entry, Form
    T = [
        E("bernoulli", "Bernoulli", [
            Fm("logits", [("logits", "logit")], 1, bare=True),
            Fm("probs", [("probs", "prob")], 0),
            Fm("logits-f32", [("logits", "logit")], 0, static={"dtype": "float32"}),
        ], "bit", dtype="int32"),
        E("beta", "Beta", [Fm("std", [("concentration1", "conc"), ("concentration0", "conc")], 2)], "unit"),
        E("beta_binomial", "BetaBinomial", [Fm("std", [("total_count", "count"), ("concentration1", "conc"), ("concentration0", "conc")], 3)], "upto_count"),
        E("beta_quotient", "BetaQuotient", [Fm("std", [("concentration1_numerator", "conc"), ("concentration0_numerator", "conc"), ("concentration1_denominator", "conc"), ("concentration0_denominator", "conc")], 4)], "nonneg"),
        E("binomial", "Binomial", [
            Fm("logits", [("total_count", "count"), ("logits", "logit")], 2),
            Fm("probs", [("total_count", "count"), ("probs", "prob")], 1),
        ], "upto_count"),
        E("categorical", "Categorical", [
            Fm("logits", [("logits", "logitvec")], 1, bare=True),
            Fm("probs", [("probs", "simplex")], 0),
        ], "category", dtype="int32"),
        E("cauchy", "Cauchy", [Fm("std", [("loc", "real"), ("scale", "pos")], 2)], "real"),
        E("chi", "Chi", [Fm("std", [("df", "df")], 1)], "nonneg"),
        E("chi2", "Chi2", [Fm("std", [("df", "df")], 1)], "nonneg"),
        E("dirichlet", "Dirichlet", [Fm("std", [("concentration", "posvec")], 1)], "simplex", event_ndims=1),
        E("dirichlet_multinomial", "DirichletMultinomial", [Fm("std", [("total_count", "count"), ("concentration", "posvec")], 2)], "countvec", event_ndims=1),
        E("double_sided_maxwell", "DoublesidedMaxwell", [Fm("std", [("loc", "real"), ("scale", "pos")], 2)], "real"),
        E("exp_gamma", "ExpGamma", [
            Fm("rate", [("concentration", "conc"), ("rate", "rate")], 2),
            Fm("log_rate", [("concentration", "conc"), ("log_rate", "lograte")], 1),
        ], "real"),
        E("exp_inverse_gamma", "ExpInverseGamma", [
            Fm("scale", [("concentration", "conc"), ("scale", "pos")], 2),
            Fm("log_scale", [("concentration", "conc"), ("log_scale", "lograte")], 1),
        ], "real"),
        E("exponential", "Exponential", [Fm("std", [("rate", "rate")], 1)], "nonneg"),
        E("flip", _flip_ctor, [Fm("std", [("p", "prob")], 1)], "bool", dtype="bool"),
        E("gamma", "Gamma", [
            Fm("rate", [("concentration", "conc"), ("rate", "rate")], 2),
            Fm("log_rate", [("concentration", "conc"), ("log_rate", "lograte")], 1),
        ], "nonneg"),
        E("geometric", "Geometric", [
            Fm("logits", [("logits", "logit_hi")], 1),
            Fm("probs", [("probs", "prob_hi")], 0),
        ], "nat"),
        E("gumbel", "Gumbel", [Fm("std", [("loc", "real"), ("scale", "pos")], 2)], "real"),
        E("half_cauchy", "HalfCauchy", [Fm("std", [("loc", "real"), ("scale", "pos")], 2)], "ge_loc"),
        E("half_normal", "HalfNormal", [Fm("std", [("scale", "pos")], 1)], "nonneg"),
        E("half_student_t", "HalfStudentT", [Fm("std", [("df", "df"), ("loc", "real"), ("scale", "pos")], 3)], "ge_loc"),
        E("inverse_gamma", "InverseGamma", [Fm("std", [("concentration", "conc"), ("scale", "pos")], 2)], "nonneg"),
        E("inverse_gaussian", "InverseGaussian", [Fm("std", [("loc", "pos"), ("concentration", "conc")], 2)], "nonneg", exported=False),
        E("kumaraswamy", "Kumaraswamy", [Fm("std", [("concentration1", "conc_gt1"), ("concentration0", "conc_gt1")], 2)], "unit"),
        E("lambert_w_normal", "LambertWNormal", [
            Fm("tail", [("loc", "real"), ("scale", "pos"), ("tailweight", "tail")], 3),
            Fm("notail", [("loc", "real"), ("scale", "pos")], 2),
        ], "real"),
        E("laplace", "Laplace", [Fm("std", [("loc", "real"), ("scale", "pos")], 2)], "real"),
        E("log_normal", "LogNormal", [Fm("std", [("loc", "real"), ("scale", "pos")], 2)], "nonneg"),
        E("logit_normal", "LogitNormal", [Fm("std", [("loc", "real"), ("scale", "pos")], 2)], "unit"),
        E("moyal", "Moyal", [Fm("std", [("loc", "real"), ("scale", "pos")], 2)], "real"),
        E("multinomial", "Multinomial", [
            Fm("logits", [("total_count", "count"), ("logits", "logitvec")], 2),
            Fm("probs", [("total_count", "count"), ("probs", "simplex")], 1),
        ], "countvec", event_ndims=1),
        E("mv_normal", "MultivariateNormalFullCovariance", [Fm("std", [("loc", "realvec"), ("covariance_matrix", "spd")], 2)], "realvec", event_ndims=1),
        E("mv_normal_diag", "MultivariateNormalDiag", [
            Fm("std", [("loc", "realvec"), ("scale_diag", "posvec")], 2),
            Fm("scale-only", [("scale_diag", "posvec")], 0),
        ], "realvec", event_ndims=1),
        E("negative_binomial", "NegativeBinomial", [
            Fm("logits", [("total_count", "count"), ("logits", "logit")], 2),
            Fm("probs", [("total_count", "count"), ("probs", "prob")], 1),
        ], "nat"),
        E("non_central_chi2", "NoncentralChi2", [Fm("std", [("df", "df"), ("noncentrality", "rate")], 2)], "nonneg"),
        E("normal", "Normal", [Fm("std", [("loc", "real"), ("scale", "pos")], 2)], "real"),
        E("poisson", "Poisson", [
            Fm("rate", [("rate", "rate")], 1),
            Fm("log_rate", [("log_rate", "lograte")], 0),
        ], "nat"),
        E("power_spherical", "PowerSpherical", [Fm("std", [("mean_direction", "unitvec"), ("concentration", "kappa")], 2)], "sphere", event_ndims=1),
        E("skellam", "Skellam", [
            Fm("rate", [("rate1", "rate"), ("rate2", "rate")], 2),
            Fm("log_rate", [("log_rate1", "lograte"), ("log_rate2", "lograte")], 0),
        ], "int"),
        E("student_t", "StudentT", [Fm("std", [("df", "df"), ("loc", "real"), ("scale", "pos")], 3)], "real"),
        E("truncated_cauchy", "TruncatedCauchy", [Fm("std", [("loc", "real"), ("scale", "pos"), ("low", "low"), ("high", "high")], 4)], "interval"),
        E("truncated_normal", "TruncatedNormal", [Fm("std", [("loc", "real"), ("scale", "pos"), ("low", "low"), ("high", "high")], 4)], "interval"),
        E("uniform", "Uniform", [Fm("std", [("low", "low"), ("high", "high")], 2)], "interval"),
        E("von_mises", "VonMises", [Fm("std", [("loc", "real"), ("concentration", "kappa")], 2)], "circle"),
        E("von_mises_fisher", "VonMisesFisher", [Fm("std", [("mean_direction", "unitvec"), ("concentration", "kappa")], 2)], "sphere", event_ndims=1),
        E("weibull", "Weibull", [Fm("std", [("concentration", "conc_gt1"), ("scale", "pos")], 2)], "nonneg"),
        E("zipf", "Zipf", [
            Fm("std", [("power", "power")], 1),
            Fm("f32", [("power", "power")], 1, static={"dtype": "float32"}),
        ], "pos_int", dtype="int32"),
    ]
    for e in T:
        for cls, names in COST.items():
            if e.name in names:
                e.cost = cls
    return T


# Measured CPU-seconds of XLA compile per instance under jit(vmap) (TFP 0.23 / jax 0.5, opt level 0):
#   "heavy":   the *sampler* costs 1.5-20 s per instance (gamma family, rejection samplers) and
#              seconds per call eagerly; log_prob is cheap (< 0.5 s)
#   "lpheavy": the *log_prob* itself costs 1.3-17 s per instance (beta_quotient: 147 s of vmap
#              lowering, 17 s without vmap; 10-15 s per eager call) -> no vmap, reduced op sets
COST = {
    "heavy": ["beta", "beta_binomial", "binomial", "chi", "chi2", "dirichlet", "dirichlet_multinomial",
              "exp_gamma", "exp_inverse_gamma", "gamma", "half_student_t", "inverse_gamma", "inverse_gaussian",
              "kumaraswamy", "multinomial", "negative_binomial", "poisson", "power_spherical", "student_t",
              "von_mises", "zipf"],
    "lpheavy": ["beta_quotient", "non_central_chi2", "skellam", "von_mises_fisher", "lambert_w_normal"],
}
# rough CPU-seconds of the always-run scenario, for balancing shards
UNIT_COST = {"light": 6.0, "heavy": 22.0, "lpheavy": 40.0}
UNIT_COST_BY_NAME = {"beta_quotient": 110.0, "dirichlet_multinomial": 40.0, "multinomial": 40.0, "beta_binomial": 35.0,
                     "power_spherical": 35.0, "skellam": 60.0, "non_central_chi2": 60.0}


def draw_params(form, rng, bs, edge=False, keep=None):
    """A dict name -> float32 array. `keep`: a previous draw whose support-determining parameters
    (counts, truncation bounds) are kept, so that an old value stays inside the new support."""
    out = {}
    for name, kind in form.params:
        if keep is not None and kind in SUPPORT_DETERMINING:
            out[name] = keep[name]
        else:
            out[name] = gen_param(kind, rng, bs, edge)
    return out
