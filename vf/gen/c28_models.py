"""C28 workloads: hand-templated differentiable models for HMC, each with an independent
reference log density.

A *family* fixes everything that decides the shape of the traced computation (template, vector
lengths, discrete start values); the numeric parameters `th`, the start assignment and the step
size are *inputs*, so that one compiled computation serves many variants.

Every template function takes a structural rng and returns a dict
    name            template label
    model           genjax generative function
    mk_args(th)     model arguments from the parameter vector (jnp or numpy array `th`)
    draw_params(rng) -> numpy parameter vector;   draw_start(rng) -> {address tuple: numpy value}
    kinds           {address: 'c' continuous | 'b' bool | 'i' int}
    readers         {address: fn(choice map) -> array} (public lookups only)
    mk_constraint(start, pyfloat=()) -> genjax ChoiceMap holding the complete start assignment
    pyfloat_ok      (optional) addresses that may be constrained with a plain Python float
    logp(vals, th, xp)  reference joint log density; `xp` is numpy (float64 evaluation) or
                    jax.numpy (for jax.grad under enable_x64); entries of `vals` may be tracers
    selections      list of (label, genjax Selection, [addresses it covers])
    quadratic       True when log p is quadratic in the continuous choices
The genjax model and `logp` are two separate transcriptions of the same mathematical model.
"""

from __future__ import annotations

import math

import numpy as np

LOG2PI = math.log(2.0 * math.pi)


def _u(rng, lo, hi, nd=3):
    return float(np.round(rng.uniform(lo, hi), nd))


def _uv(rng, lo, hi, n, nd=3):
    return np.round(rng.uniform(lo, hi, size=n), nd)


# ---- reference log densities, generic over the array module
def n_lp(xp, v, mu, s):
    z = (v - mu) / s
    return xp.sum(-0.5 * z * z - xp.log(s + 0.0 * z) - 0.5 * LOG2PI)


def cauchy_lp(xp, v, loc, s):
    z = (v - loc) / s
    return xp.sum(-xp.log(math.pi * s * (1.0 + z * z)))


def student_lp(xp, v, df, loc, s):
    z = (v - loc) / s
    c = math.lgamma((df + 1.0) / 2.0) - math.lgamma(df / 2.0) - 0.5 * math.log(df * math.pi)
    return xp.sum(c - xp.log(s + 0.0 * z) - 0.5 * (df + 1.0) * xp.log(1.0 + z * z / df))


def gumbel_lp(xp, v, loc, s):
    z = (v - loc) / s
    return xp.sum(-(z + xp.exp(-z)) - xp.log(s + 0.0 * z))


def _key(addr):
    return addr if len(addr) > 1 else addr[0]


def _finish(genjax, jnp, d, kinds, ranges, start_ranges, read=None):
    """ranges: list of (lo, hi) per parameter; start_ranges: {addr: (lo, hi, shape or None)}."""
    d["kinds"] = kinds
    d["cont"] = [a for a, k in kinds.items() if k == "c"]
    d["disc"] = [a for a, k in kinds.items() if k != "c"]
    readers = {a: (lambda ch, a=a: ch[_key(a)]) for a in kinds}
    readers.update(read or {})
    d["readers"] = readers
    d.setdefault("mk_args", lambda th: (th,))
    fixed_start = d.get("fixed_start", {})

    def draw_params(rng):
        return np.array([_u(rng, lo, hi) for lo, hi in ranges], dtype=np.float64)

    def draw_start(rng):
        out = {}
        for a in kinds:
            if a in fixed_start:
                out[a] = fixed_start[a]
                continue
            lo, hi, shape = start_ranges[a]
            out[a] = _u(rng, lo, hi) if shape is None else _uv(rng, lo, hi, shape)
        return out

    def mk_constraint(start, pyfloat=()):
        """`pyfloat`: addresses whose value is given as a plain Python float (as user code and
        the library's own tests do: `ChoiceMap.kw(y=3.0)`) instead of a jax array."""
        C = genjax.ChoiceMap
        chm = C.empty()
        for addr, v in start.items():
            dt = {"c": jnp.float32, "b": bool, "i": jnp.int32}[kinds[addr]]
            val = float(v) if addr in pyfloat else jnp.asarray(v, dt)
            chm = chm | C.empty().at[_key(addr)].set(val)
        return chm

    d["draw_params"], d["draw_start"], d["mk_constraint"] = draw_params, draw_start, mk_constraint
    return d


SC = (0.7, 1.6)  # scale parameters: keeps eps^2 * curvature moderate for eps <= 0.3


def t_chain(srng, genjax, jnp):
    S = genjax.SelectionBuilder

    @genjax.gen
    def chain(th):
        x = genjax.normal(th[0], th[1]) @ "x"
        z = genjax.normal(th[2] * jnp.sin(x), th[3]) @ "z"
        y = genjax.normal(x * z + th[4], th[5]) @ "y"
        return y

    def logp(v, th, xp):
        x, z, y = v[("x",)], v[("z",)], v[("y",)]
        return n_lp(xp, x, th[0], th[1]) + n_lp(xp, z, th[2] * xp.sin(x), th[3]) + n_lp(xp, y, x * z + th[4], th[5])

    sels = [("x", S["x"], [("x",)]), ("z", S["z"], [("z",)]), ("x|z", S["x"] | S["z"], [("x",), ("z",)]), ("all", genjax.Selection.all(), [("x",), ("z",), ("y",)]), ("x|y", S["x"] | S["y"], [("x",), ("y",)])]
    kinds = {("x",): "c", ("z",): "c", ("y",): "c"}
    return _finish(genjax, jnp, dict(name="chain", model=chain, logp=logp, selections=sels, quadratic=False, pyfloat_ok=[("y",)]), kinds, [(-1, 1), SC, (-1.2, 1.2), SC, (-1, 1), SC], {a: (-1.5, 1.5, None) for a in kinds})


def t_gauss(srng, genjax, jnp):
    """Linear-Gaussian (quadratic log density): the control group."""
    S = genjax.SelectionBuilder

    @genjax.gen
    def gauss(th):
        x = genjax.normal(th[0], th[1]) @ "x"
        y = genjax.normal(th[2] * x, th[3]) @ "y"
        return y

    def logp(v, th, xp):
        return n_lp(xp, v[("x",)], th[0], th[1]) + n_lp(xp, v[("y",)], th[2] * v[("x",)], th[3])

    sels = [("x", S["x"], [("x",)]), ("x|y", S["x"] | S["y"], [("x",), ("y",)])]
    kinds = {("x",): "c", ("y",): "c"}
    return _finish(genjax, jnp, dict(name="gauss", model=gauss, logp=logp, selections=sels, quadratic=True, pyfloat_ok=[("y",)]), kinds, [(-1, 1), SC, (-1.2, 1.2), SC], {a: (-1.5, 1.5, None) for a in kinds})


def t_funnel(srng, genjax, jnp):
    S = genjax.SelectionBuilder
    n = int(srng.integers(2, 4))

    @genjax.gen
    def funnel(th):
        v = genjax.normal(0.0, th[0]) @ "v"
        x = genjax.normal(jnp.zeros(n), jnp.exp(v / 2.0) * jnp.ones(n)) @ "x"
        y = genjax.normal(x, th[1] * jnp.ones(n)) @ "y"
        return y

    def logp(val, th, xp):
        v, x, y = val[("v",)], val[("x",)], val[("y",)]
        return n_lp(xp, v, 0.0, th[0]) + n_lp(xp, x, 0.0, xp.exp(v / 2.0)) + n_lp(xp, y, x, th[1])

    sels = [("v", S["v"], [("v",)]), ("x", S["x"], [("x",)]), ("v|x", S["v"] | S["x"], [("v",), ("x",)])]
    kinds = {("v",): "c", ("x",): "c", ("y",): "c"}
    return _finish(genjax, jnp, dict(name=f"funnel{n}", model=funnel, logp=logp, selections=sels, quadratic=False), kinds, [(0.8, 1.4), SC], {("v",): (-1, 1, None), ("x",): (-1.5, 1.5, n), ("y",): (-1.5, 1.5, n)})


def t_heavy(srng, genjax, jnp):
    S = genjax.SelectionBuilder
    df = float(srng.integers(3, 8))

    @genjax.gen
    def heavy(th):
        u = genjax.normal(th[0], 1.0) @ "u"
        w = genjax.cauchy(u, th[1]) @ "w"
        t = genjax.student_t(df, w, th[2]) @ "t"
        y = genjax.gumbel(t, th[3]) @ "y"
        return y

    def logp(v, th, xp):
        u, w, t, y = v[("u",)], v[("w",)], v[("t",)], v[("y",)]
        return n_lp(xp, u, th[0], 1.0) + cauchy_lp(xp, w, u, th[1]) + student_lp(xp, t, df, w, th[2]) + gumbel_lp(xp, y, t, th[3])

    sels = [("u", S["u"], [("u",)]), ("w", S["w"], [("w",)]), ("t", S["t"], [("t",)]), ("u|w|t", S["u"] | S["w"] | S["t"], [("u",), ("w",), ("t",)])]
    kinds = {("u",): "c", ("w",): "c", ("t",): "c", ("y",): "c"}
    return _finish(genjax, jnp, dict(name="heavy", model=heavy, logp=logp, selections=sels, quadratic=False), kinds, [(-1, 1), SC, SC, (0.8, 1.6)], {("u",): (-1.5, 1.5, None), ("w",): (-1.5, 1.5, None), ("t",): (-1.5, 1.5, None), ("y",): (-1.0, 2.0, None)})


def t_vec(srng, genjax, jnp):
    S = genjax.SelectionBuilder
    n = int(srng.integers(2, 5))

    @genjax.gen
    def vec(th):
        w = genjax.normal(th[0:n], th[n : 2 * n]) @ "w"
        q = genjax.normal(w[0] * w[-1], th[3 * n]) @ "q"
        y = genjax.normal(jnp.sum(w * th[2 * n : 3 * n]) + 0.5 * q * q, th[3 * n + 1]) @ "y"
        return y

    def logp(v, th, xp):
        w, q, y = v[("w",)], v[("q",)], v[("y",)]
        return n_lp(xp, w, th[0:n], th[n : 2 * n]) + n_lp(xp, q, w[0] * w[-1], th[3 * n]) + n_lp(xp, y, xp.sum(w * th[2 * n : 3 * n]) + 0.5 * q * q, th[3 * n + 1])

    sels = [("w", S["w"], [("w",)]), ("q", S["q"], [("q",)]), ("w|q", S["w"] | S["q"], [("w",), ("q",)])]
    kinds = {("w",): "c", ("q",): "c", ("y",): "c"}
    ranges = [(-1, 1)] * n + [SC] * n + [(-1, 1)] * n + [SC, SC]
    return _finish(genjax, jnp, dict(name=f"vec{n}", model=vec, logp=logp, selections=sels, quadratic=False), kinds, ranges, {("w",): (-1.5, 1.5, n), ("q",): (-1.5, 1.5, None), ("y",): (-1.5, 1.5, None)})


def t_hier(srng, genjax, jnp):
    S = genjax.SelectionBuilder
    mult = np.array([1.0, -0.5, 0.25])
    jmult = jnp.asarray(mult, jnp.float32)
    with_vm = bool(srng.random() < 0.5)

    @genjax.gen
    def sub(m, th):
        u = genjax.normal(m, th[1]) @ "u"
        v = genjax.normal(th[2] * jnp.tanh(u), th[3]) @ "v"
        return u + 0.5 * v * v

    if with_vm:

        @genjax.gen
        def hier(th):
            m = genjax.normal(th[0], 1.0) @ "m"
            r = sub(m, th) @ "s"
            rs = sub.vmap(in_axes=(0, None))(m * jmult, th) @ "vm"
            y = genjax.normal(r + jnp.sum(rs), th[4]) @ "y"
            return y

    else:

        @genjax.gen
        def hier(th):
            m = genjax.normal(th[0], 1.0) @ "m"
            r = sub(m, th) @ "s"
            y = genjax.normal(r, th[4]) @ "y"
            return y

    def logp(val, th, xp):
        m, u, v, y = val[("m",)], val[("s", "u")], val[("s", "v")], val[("y",)]
        r = u + 0.5 * v * v
        base = n_lp(xp, m, th[0], 1.0) + n_lp(xp, u, m, th[1]) + n_lp(xp, v, th[2] * xp.tanh(u), th[3])
        if not with_vm:
            return base + n_lp(xp, y, r, th[4])
        vu, vv = val[("vm", "u")], val[("vm", "v")]
        rs = vu + 0.5 * vv * vv
        return base + n_lp(xp, vu, m * mult, th[1]) + n_lp(xp, vv, th[2] * xp.tanh(vu), th[3]) + n_lp(xp, y, r + xp.sum(rs), th[4])

    sub_s = [("s", "u"), ("s", "v")]
    sub_vm = [("vm", "u"), ("vm", "v")]
    kinds = {("m",): "c", ("s", "u"): "c", ("s", "v"): "c", ("y",): "c"}
    sr = {("m",): (-1.2, 1.2, None), ("s", "u"): (-1.2, 1.2, None), ("s", "v"): (-1.2, 1.2, None), ("y",): (-1.5, 1.5, None)}
    sels = [("s", S["s"], sub_s), ("s.u", S["s", "u"], [("s", "u")]), ("m|s.v", S["m"] | S["s", "v"], [("m",), ("s", "v")])]
    read = {}
    if with_vm:
        kinds.update({("vm", "u"): "c", ("vm", "v"): "c"})
        sr.update({("vm", "u"): (-1.2, 1.2, 3), ("vm", "v"): (-1.2, 1.2, 3)})
        sels += [("vm", S["vm"], sub_vm), ("vm.u", S["vm", "u"], [("vm", "u")]), ("m|s|vm", S["m"] | S["s"] | S["vm"], [("m",)] + sub_s + sub_vm)]
        read = {("vm", "u"): lambda ch: ch["vm", :, "u"], ("vm", "v"): lambda ch: ch["vm", :, "v"]}
    else:
        sels += [("m|s", S["m"] | S["s"], [("m",)] + sub_s)]
    return _finish(genjax, jnp, dict(name="hier" + ("vm" if with_vm else ""), model=hier, logp=logp, selections=sels, quadratic=False), kinds, [(-1, 1), SC, (-1.2, 1.2), SC, (0.8, 1.5)], sr, read=read)


def t_scan(srng, genjax, jnp):
    S = genjax.SelectionBuilder
    T = int(srng.integers(2, 5))

    @genjax.gen
    def kern(carry, p):
        x = genjax.normal(p[1] * jnp.tanh(carry), p[2]) @ "x"
        y = genjax.normal(x + p[3] * x * x, p[0]) @ "y"
        return x, None

    model = kern.scan(n=T)

    # th = [rho, sx, b, c0, s_0 .. s_{T-1}]
    def mk_args(th):
        xp = jnp if not isinstance(th, np.ndarray) else np
        rows = xp.stack([th[4 : 4 + T], th[0] * xp.ones(T), th[1] * xp.ones(T), th[2] * xp.ones(T)], axis=1)
        return (th[3], rows)

    def logp(v, th, xp):
        x, y = v[("x",)], v[("y",)]
        tot = 0.0
        prev = th[3]
        for t in range(T):
            tot = tot + n_lp(xp, x[t], th[0] * xp.tanh(prev), th[1]) + n_lp(xp, y[t], x[t] + th[2] * x[t] * x[t], th[4 + t])
            prev = x[t]
        return tot

    read = {("x",): lambda ch: ch[:, "x"], ("y",): lambda ch: ch[:, "y"]}
    sels = [("x", S["x"], [("x",)]), ("x|y", S["x"] | S["y"], [("x",), ("y",)]), ("y", S["y"], [("y",)])]
    kinds = {("x",): "c", ("y",): "c"}
    ranges = [(0.4, 1.2), SC, (-0.4, 0.4), (-1, 1)] + [SC] * T
    return _finish(genjax, jnp, dict(name=f"scan{T}", model=model, mk_args=mk_args, logp=logp, selections=sels, quadratic=False), kinds, ranges, {("x",): (-1.3, 1.3, T), ("y",): (-1.3, 1.3, T)}, read=read)


def t_mixed(srng, genjax, jnp):
    """Continuous choices next to discrete ones.  Two of the selections also cover a discrete
    choice: the statement says only the selected *continuous* choices move."""
    S = genjax.SelectionBuilder
    bval, kval = bool(srng.random() < 0.5), int(srng.integers(3))

    # th = [p, m1, m0, s, s3, l0, l1, l2]
    @genjax.gen
    def mixed(th):
        bb = genjax.flip(th[0]) @ "b"
        k = genjax.categorical(th[5:8]) @ "k"
        x = genjax.normal(jnp.where(bb, th[1], th[2]) + 0.3 * k, 1.0) @ "x"
        z = genjax.normal(0.5 * x * x, th[3]) @ "z"
        y = genjax.normal(x + z, th[4]) @ "y"
        return y

    def logp(v, th, xp):
        if bool(np.asarray(v[("b",)])) != bval or int(np.asarray(v[("k",)])) != kval:
            raise ValueError("reference density is specialised to the family's discrete start values")
        x, z, y = v[("x",)], v[("z",)], v[("y",)]
        lg = th[5:8]
        const = (xp.log(th[0]) if bval else xp.log(1.0 - th[0])) + lg[kval] - xp.log(xp.sum(xp.exp(lg)))
        loc = (th[1] if bval else th[2]) + 0.3 * kval
        return const + n_lp(xp, x, loc, 1.0) + n_lp(xp, z, 0.5 * x * x, th[3]) + n_lp(xp, y, x + z, th[4])

    sels = [
        ("x", S["x"], [("x",)]),
        ("x|z", S["x"] | S["z"], [("x",), ("z",)]),
        ("x|b", S["x"] | S["b"], [("x",), ("b",)]),
        ("all", genjax.Selection.all(), [("b",), ("k",), ("x",), ("z",), ("y",)]),
    ]
    kinds = {("b",): "b", ("k",): "i", ("x",): "c", ("z",): "c", ("y",): "c"}
    ranges = [(0.2, 0.8), (0.3, 1.2), (-1.2, -0.3), SC, SC, (-1, 1), (-1, 1), (-1, 1)]
    sr = {("x",): (-1.3, 1.3, None), ("z",): (-1.3, 1.3, None), ("y",): (-1.3, 1.3, None)}
    return _finish(genjax, jnp, dict(name="mixed", model=mixed, logp=logp, selections=sels, quadratic=False, fixed_start={("b",): bval, ("k",): kval}), kinds, ranges, sr)


TEMPLATES = [t_chain, t_gauss, t_funnel, t_heavy, t_vec, t_hier, t_scan, t_mixed]
WEIGHTS = [3, 1, 2, 2, 2, 3, 3, 2]


def draw(srng, genjax, jnp):
    w = np.asarray(WEIGHTS, float)
    t = TEMPLATES[int(srng.choice(len(TEMPLATES), p=w / w.sum()))]
    return t(srng, genjax, jnp)
