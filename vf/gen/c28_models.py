"""C28 workloads: hand-templated differentiable models for HMC, each with an independent
reference log density.

Every template returns a dict
    name        template label
    model,args  genjax generative function and its arguments
    start       {address tuple: numpy value}: complete start assignment (installed with importance)
    cont        addresses holding continuous (float) choices;  disc: discrete ones
    readers     {address: fn(choice map) -> array} (public lookups only); read(ch) applies all of them
    constraint  genjax ChoiceMap of `start`
    logp(vals, xp)  reference joint log density; `xp` is numpy (float64 evaluation) or jax.numpy
                (for jax.grad under enable_x64); continuous entries of `vals` may be tracers
    selections  list of (label, genjax Selection, [addresses it covers])
    quadratic   True when log p is quadratic in the continuous choices
The genjax model and `logp` are two separate transcriptions of the same mathematical model.
"""

from __future__ import annotations

import math

import numpy as np

LOG2PI = math.log(2.0 * math.pi)


def _r(rng, lo, hi, nd=3):
    return float(np.round(rng.uniform(lo, hi), nd))


def _rv(rng, lo, hi, n, nd=3):
    return np.round(rng.uniform(lo, hi, size=n), nd)


# ---- reference log densities, generic over the array module
def n_lp(xp, v, mu, s):
    z = (v - mu) / s
    return xp.sum(-0.5 * z * z - xp.log(s + 0.0 * z) - 0.5 * LOG2PI)


def cauchy_lp(xp, v, loc, s):
    z = (v - loc) / s
    return xp.sum(-xp.log(math.pi * s * (1.0 + z * z)))


def student_lp(xp, v, df, loc, s):
    z = (v - loc) / s
    c = math.lgamma((df + 1.0) / 2.0) - math.lgamma(df / 2.0) - 0.5 * math.log(df * math.pi) - math.log(s)
    return xp.sum(c - 0.5 * (df + 1.0) * xp.log(1.0 + z * z / df))


def gumbel_lp(xp, v, loc, s):
    z = (v - loc) / s
    return xp.sum(-(z + xp.exp(-z)) - math.log(s))


def _key(addr):
    return addr if len(addr) > 1 else addr[0]


def _mk_constraint(genjax, jnp, start, kinds):
    C = genjax.ChoiceMap
    chm = C.empty()
    for addr, v in start.items():
        if kinds[addr] == "c":
            val = jnp.asarray(v, jnp.float32)
        elif kinds[addr] == "b":
            val = jnp.asarray(v, bool)
        else:
            val = jnp.asarray(v, jnp.int32)
        chm = chm | C.empty().at[_key(addr)].set(val)
    return chm


def _finish(genjax, jnp, d, kinds, read=None):
    d["kinds"] = kinds
    d["cont"] = [a for a, k in kinds.items() if k == "c"]
    d["disc"] = [a for a, k in kinds.items() if k != "c"]
    d["constraint"] = _mk_constraint(genjax, jnp, d["start"], kinds)
    readers = {a: (lambda ch, a=a: ch[_key(a)]) for a in kinds}
    readers.update(read or {})
    d["readers"] = readers
    d["read"] = lambda ch: {a: r(ch) for a, r in readers.items()}
    return d


def t_chain(rng, genjax, jnp):
    S = genjax.SelectionBuilder
    a, s1, c, s2, d, s3 = _r(rng, -1, 1), _r(rng, 0.7, 1.6), _r(rng, -1.2, 1.2), _r(rng, 0.6, 1.5), _r(rng, -1, 1), _r(rng, 0.6, 1.3)

    @genjax.gen
    def chain(a_):
        x = genjax.normal(a_, s1) @ "x"
        z = genjax.normal(c * jnp.sin(x), s2) @ "z"
        y = genjax.normal(x * z + d, s3) @ "y"
        return y

    start = {("x",): _r(rng, -1.5, 1.5), ("z",): _r(rng, -1.5, 1.5), ("y",): _r(rng, -1.5, 1.5)}

    def logp(v, xp):
        x, z, y = v[("x",)], v[("z",)], v[("y",)]
        return n_lp(xp, x, a, s1) + n_lp(xp, z, c * xp.sin(x), s2) + n_lp(xp, y, x * z + d, s3)

    sels = [("x", S["x"], [("x",)]), ("z", S["z"], [("z",)]), ("x|z", S["x"] | S["z"], [("x",), ("z",)]), ("all", genjax.Selection.all(), [("x",), ("z",), ("y",)]), ("x|y", S["x"] | S["y"], [("x",), ("y",)])]
    return _finish(genjax, jnp, dict(name="chain", model=chain, args=(a,), start=start, logp=logp, selections=sels, quadratic=False), {("x",): "c", ("z",): "c", ("y",): "c"})


def t_gauss(rng, genjax, jnp):
    """Linear-Gaussian (quadratic log density): the control group."""
    S = genjax.SelectionBuilder
    a, s1, c, s2 = _r(rng, -1, 1), _r(rng, 0.7, 1.6), _r(rng, -1.2, 1.2), _r(rng, 0.5, 1.3)

    @genjax.gen
    def gauss():
        x = genjax.normal(a, s1) @ "x"
        y = genjax.normal(c * x, s2) @ "y"
        return y

    start = {("x",): _r(rng, -1.5, 1.5), ("y",): _r(rng, -1.5, 1.5)}

    def logp(v, xp):
        return n_lp(xp, v[("x",)], a, s1) + n_lp(xp, v[("y",)], c * v[("x",)], s2)

    sels = [("x", S["x"], [("x",)]), ("all", S["x"] | S["y"], [("x",), ("y",)])]
    return _finish(genjax, jnp, dict(name="gauss", model=gauss, args=(), start=start, logp=logp, selections=sels, quadratic=True), {("x",): "c", ("y",): "c"})


def t_funnel(rng, genjax, jnp):
    S = genjax.SelectionBuilder
    n = int(rng.integers(2, 4))
    sv, s = _r(rng, 0.8, 1.4), _r(rng, 0.6, 1.2)

    @genjax.gen
    def funnel():
        v = genjax.normal(0.0, sv) @ "v"
        x = genjax.normal(jnp.zeros(n), jnp.exp(v / 2.0) * jnp.ones(n)) @ "x"
        y = genjax.normal(x, s * jnp.ones(n)) @ "y"
        return y

    start = {("v",): _r(rng, -1.0, 1.0), ("x",): _rv(rng, -1.5, 1.5, n), ("y",): _rv(rng, -1.5, 1.5, n)}

    def logp(val, xp):
        v, x, y = val[("v",)], val[("x",)], val[("y",)]
        return n_lp(xp, v, 0.0, sv) + n_lp(xp, x, 0.0, xp.exp(v / 2.0)) + n_lp(xp, y, x, s)

    sels = [("v", S["v"], [("v",)]), ("x", S["x"], [("x",)]), ("v|x", S["v"] | S["x"], [("v",), ("x",)])]
    return _finish(genjax, jnp, dict(name="funnel", model=funnel, args=(), start=start, logp=logp, selections=sels, quadratic=False), {("v",): "c", ("x",): "c", ("y",): "c"})


def t_heavy(rng, genjax, jnp):
    S = genjax.SelectionBuilder
    a, sc, df, s2, bg = _r(rng, -1, 1), _r(rng, 0.7, 1.5), float(rng.integers(3, 8)), _r(rng, 0.7, 1.5), _r(rng, 0.8, 1.6)

    @genjax.gen
    def heavy(a_):
        u = genjax.normal(a_, 1.0) @ "u"
        w = genjax.cauchy(u, sc) @ "w"
        t = genjax.student_t(df, w, s2) @ "t"
        y = genjax.gumbel(t, bg) @ "y"
        return y

    start = {("u",): _r(rng, -1.5, 1.5), ("w",): _r(rng, -1.5, 1.5), ("t",): _r(rng, -1.5, 1.5), ("y",): _r(rng, -1.0, 2.0)}

    def logp(v, xp):
        u, w, t, y = v[("u",)], v[("w",)], v[("t",)], v[("y",)]
        return n_lp(xp, u, a, 1.0) + cauchy_lp(xp, w, u, sc) + student_lp(xp, t, df, w, s2) + gumbel_lp(xp, y, t, bg)

    sels = [("u", S["u"], [("u",)]), ("w", S["w"], [("w",)]), ("t", S["t"], [("t",)]), ("u|w|t", S["u"] | S["w"] | S["t"], [("u",), ("w",), ("t",)])]
    return _finish(genjax, jnp, dict(name="heavy", model=heavy, args=(a,), start=start, logp=logp, selections=sels, quadratic=False), {("u",): "c", ("w",): "c", ("t",): "c", ("y",): "c"})


def t_vec(rng, genjax, jnp):
    S = genjax.SelectionBuilder
    n = int(rng.integers(2, 5))
    mu, sc, co, s, s3 = _rv(rng, -1, 1, n), _rv(rng, 0.7, 1.6, n), _rv(rng, -1, 1, n), _r(rng, 0.6, 1.3), _r(rng, 0.7, 1.3)
    jmu, jsc, jco = jnp.asarray(mu, jnp.float32), jnp.asarray(sc, jnp.float32), jnp.asarray(co, jnp.float32)

    @genjax.gen
    def vec():
        w = genjax.normal(jmu, jsc) @ "w"
        q = genjax.normal(w[0] * w[-1], s) @ "q"
        y = genjax.normal(jnp.sum(w * jco) + 0.5 * q * q, s3) @ "y"
        return y

    start = {("w",): _rv(rng, -1.5, 1.5, n), ("q",): _r(rng, -1.5, 1.5), ("y",): _r(rng, -1.5, 1.5)}

    def logp(v, xp):
        w, q, y = v[("w",)], v[("q",)], v[("y",)]
        return n_lp(xp, w, mu, sc) + n_lp(xp, q, w[0] * w[-1], s) + n_lp(xp, y, xp.sum(w * co) + 0.5 * q * q, s3)

    sels = [("w", S["w"], [("w",)]), ("q", S["q"], [("q",)]), ("w|q", S["w"] | S["q"], [("w",), ("q",)])]
    return _finish(genjax, jnp, dict(name="vec", model=vec, args=(), start=start, logp=logp, selections=sels, quadratic=False), {("w",): "c", ("q",): "c", ("y",): "c"})


def t_hier(rng, genjax, jnp):
    S = genjax.SelectionBuilder
    m0, s1, c, s2, s3 = _r(rng, -1, 1), _r(rng, 0.7, 1.5), _r(rng, -1.2, 1.2), _r(rng, 0.7, 1.5), _r(rng, 0.8, 1.5)
    mult = np.array([1.0, -0.5, 0.25])
    jmult = jnp.asarray(mult, jnp.float32)
    with_vm = bool(rng.random() < 0.5)

    @genjax.gen
    def sub(m):
        u = genjax.normal(m, s1) @ "u"
        v = genjax.normal(c * jnp.tanh(u), s2) @ "v"
        return u + 0.5 * v * v

    if with_vm:

        @genjax.gen
        def hier():
            m = genjax.normal(m0, 1.0) @ "m"
            r = sub(m) @ "s"
            rs = sub.vmap(in_axes=(0,))(m * jmult) @ "vm"
            y = genjax.normal(r + jnp.sum(rs), s3) @ "y"
            return y

    else:

        @genjax.gen
        def hier():
            m = genjax.normal(m0, 1.0) @ "m"
            r = sub(m) @ "s"
            y = genjax.normal(r, s3) @ "y"
            return y

    start = {("m",): _r(rng, -1.2, 1.2), ("s", "u"): _r(rng, -1.2, 1.2), ("s", "v"): _r(rng, -1.2, 1.2), ("vm", "u"): _rv(rng, -1.2, 1.2, 3), ("vm", "v"): _rv(rng, -1.2, 1.2, 3), ("y",): _r(rng, -1.5, 1.5)}
    if not with_vm:
        del start[("vm", "u")], start[("vm", "v")]

    def logp(val, xp):
        m, u, v, y = val[("m",)], val[("s", "u")], val[("s", "v")], val[("y",)]
        r = u + 0.5 * v * v
        if not with_vm:
            return n_lp(xp, m, m0, 1.0) + n_lp(xp, u, m, s1) + n_lp(xp, v, c * xp.tanh(u), s2) + n_lp(xp, y, r, s3)
        vu, vv = val[("vm", "u")], val[("vm", "v")]
        rs = vu + 0.5 * vv * vv
        return (
            n_lp(xp, m, m0, 1.0)
            + n_lp(xp, u, m, s1)
            + n_lp(xp, v, c * xp.tanh(u), s2)
            + n_lp(xp, vu, m * mult, s1)
            + n_lp(xp, vv, c * xp.tanh(vu), s2)
            + n_lp(xp, y, r + xp.sum(rs), s3)
        )

    read = {("vm", "u"): lambda ch: ch["vm", :, "u"], ("vm", "v"): lambda ch: ch["vm", :, "v"]}

    sub_s = [("s", "u"), ("s", "v")]
    sub_vm = [("vm", "u"), ("vm", "v")]
    sels = [
        ("s", S["s"], sub_s),
        ("s.u", S["s", "u"], [("s", "u")]),
        ("m|s.v", S["m"] | S["s", "v"], [("m",), ("s", "v")]),
        ("vm", S["vm"], sub_vm),
        ("vm.u", S["vm", "u"], [("vm", "u")]),
        ("m|s|vm", S["m"] | S["s"] | S["vm"], [("m",)] + sub_s + sub_vm),
    ]
    kinds = {("m",): "c", ("s", "u"): "c", ("s", "v"): "c", ("vm", "u"): "c", ("vm", "v"): "c", ("y",): "c"}
    if not with_vm:
        del kinds[("vm", "u")], kinds[("vm", "v")]
        sels = [s_ for s_ in sels if "vm" not in s_[0]] + [("m|s", S["m"] | S["s"], [("m",)] + sub_s)]
        read = {}
    return _finish(genjax, jnp, dict(name="hier" + ("vm" if with_vm else ""), model=hier, args=(), start=start, logp=logp, selections=sels, quadratic=False), kinds, read=read)


def t_scan(rng, genjax, jnp):
    S = genjax.SelectionBuilder
    T = int(rng.integers(2, 5))
    rho, sx, b, c0 = _r(rng, 0.4, 1.2), _r(rng, 0.7, 1.4), _r(rng, -0.4, 0.4), _r(rng, -1, 1)
    svec = _rv(rng, 0.7, 1.4, T)
    jsvec = jnp.asarray(svec, jnp.float32)

    @genjax.gen
    def kern(carry, s):
        x = genjax.normal(rho * jnp.tanh(carry), sx) @ "x"
        y = genjax.normal(x + b * x * x, s) @ "y"
        return x, None

    model = kern.scan(n=T)
    start = {("x",): _rv(rng, -1.3, 1.3, T), ("y",): _rv(rng, -1.3, 1.3, T)}

    def logp(v, xp):
        x, y = v[("x",)], v[("y",)]
        tot = 0.0
        prev = c0
        for t in range(T):
            tot = tot + n_lp(xp, x[t], rho * xp.tanh(prev), sx) + n_lp(xp, y[t], x[t] + b * x[t] * x[t], svec[t])
            prev = x[t]
        return tot

    read = {("x",): lambda ch: ch[:, "x"], ("y",): lambda ch: ch[:, "y"]}

    sels = [("x", S["x"], [("x",)]), ("x|y", S["x"] | S["y"], [("x",), ("y",)]), ("y", S["y"], [("y",)])]
    return _finish(genjax, jnp, dict(name="scan", model=model, args=(jnp.asarray(c0, jnp.float32), jsvec), start=start, logp=logp, selections=sels, quadratic=False), {("x",): "c", ("y",): "c"}, read=read)


def t_mixed(rng, genjax, jnp):
    """Continuous choices next to discrete ones.  Selections that also cover a discrete choice are
    marked by `covers_discrete`: the statement says only the selected *continuous* choices move."""
    S = genjax.SelectionBuilder
    p, m1, m0, s, s3 = _r(rng, 0.2, 0.8), _r(rng, 0.3, 1.2), _r(rng, -1.2, -0.3), _r(rng, 0.7, 1.4), _r(rng, 0.7, 1.3)
    logits = _rv(rng, -1, 1, 3)
    jlogits = jnp.asarray(logits, jnp.float32)

    @genjax.gen
    def mixed():
        bb = genjax.flip(p) @ "b"
        k = genjax.categorical(jlogits) @ "k"
        x = genjax.normal(jnp.where(bb, m1, m0) + 0.3 * k, 1.0) @ "x"
        z = genjax.normal(0.5 * x * x, s) @ "z"
        y = genjax.normal(x + z, s3) @ "y"
        return y

    bval, kval = bool(rng.random() < 0.5), int(rng.integers(3))
    start = {("b",): bval, ("k",): kval, ("x",): _r(rng, -1.3, 1.3), ("z",): _r(rng, -1.3, 1.3), ("y",): _r(rng, -1.3, 1.3)}
    const = (math.log(p) if bval else math.log1p(-p)) + float(logits[kval] - np.log(np.sum(np.exp(logits))))
    loc = (m1 if bval else m0) + 0.3 * kval

    def logp(v, xp):
        if bool(np.asarray(v[("b",)])) != bval or int(np.asarray(v[("k",)])) != kval:
            raise ValueError("reference density is specialised to the start values of the discrete choices")
        x, z, y = v[("x",)], v[("z",)], v[("y",)]
        return const + n_lp(xp, x, loc, 1.0) + n_lp(xp, z, 0.5 * x * x, s) + n_lp(xp, y, x + z, s3)

    sels = [
        ("x", S["x"], [("x",)]),
        ("x|z", S["x"] | S["z"], [("x",), ("z",)]),
        ("x|b", S["x"] | S["b"], [("x",), ("b",)]),
        ("all", genjax.Selection.all(), [("b",), ("k",), ("x",), ("z",), ("y",)]),
    ]
    kinds = {("b",): "b", ("k",): "i", ("x",): "c", ("z",): "c", ("y",): "c"}
    return _finish(genjax, jnp, dict(name="mixed", model=mixed, args=(), start=start, logp=logp, selections=sels, quadratic=False), kinds)


TEMPLATES = [t_chain, t_gauss, t_funnel, t_heavy, t_vec, t_hier, t_scan, t_mixed]
WEIGHTS = [3, 1, 2, 2, 2, 3, 3, 2]


def draw(rng, genjax, jnp):
    w = np.asarray(WEIGHTS, float)
    t = TEMPLATES[int(rng.choice(len(TEMPLATES), p=w / w.sum()))]
    return t(rng, genjax, jnp)
