"""C17 workload: seeded construction histories of choice maps.

A *case* is a list of steps.  Each step builds one new choice map from fresh values and/or
earlier maps of the same case (a DAG), so every intermediate map exists both as a real genjax
object and as a model (vf.ref.chm_model).  Steps are plain data (JSON-able) so that a witness
is replayable; `realize` executes one step on real objects, `model_step` on model objects.

Dynamic inputs (leaf values, array flags, array indices, index vectors) live in the list `dyn`
and are referenced by position, so that the same steps can be executed eagerly (concrete jax
arrays) and inside jax.jit (tracers).

Address components in steps:  ["s", name] | ["i", k, "py"] | ["i", dynpos, "arr"] |
["v", dynpos] | ["sl"].   (for "arr"/"v" the integer values are dyn[dynpos].)
"""

from __future__ import annotations

import numpy as np

from vf.ref import chm_model as M

ALPHA = ("a", "b", "c")
IDX = (0, 1, 2, 3)


# =========================================================================== case state


class Case:
    def __init__(self, rng, N=None):
        self.rng = rng
        self.dyn = []  # numpy arrays
        self.steps = []
        self.models = []
        self.meta = []  # per map: dict(deps=set, hist=tuple, nsw=int)
        self.counter = 1.0
        n = int(rng.choice([2, 3, 4]))
        self.N = n if N is None else int(N)  # leading dimension of dense leaves
        self.K = int(rng.choice([2, self.N]))
        self.schema = gen_schema(rng, self)
        self.slots = list(schema_slots(self.schema))
        self.inst_history = []  # (comps, full_shape) of earlier `set` steps: re-used to overlap under the same indices

    def add_dyn(self, arr):
        self.dyn.append(np.asarray(arr))
        return len(self.dyn) - 1

    def fresh_vals(self, shape, integer=False):
        n = int(np.prod(shape)) if shape else 1
        v = self.counter + np.arange(n, dtype=np.float64)
        self.counter += n
        v = v.reshape(shape)
        return v.astype(np.int32) if integer else v.astype(np.float32)


# =========================================================================== schema


def gen_schema(rng, case, depth=0):
    """('leaf', shape) | ('dict', {name: node}) | ('index', node)"""
    if depth == 0:
        keys = list(rng.choice(ALPHA, size=int(rng.integers(2, 4)), replace=False))
        node = ("dict", {k: gen_schema(rng, case, 1) for k in keys})
        return ("index", node) if rng.random() < 0.12 else node
    r = rng.random()
    if depth < 3 and r < 0.30:
        keys = list(rng.choice(ALPHA, size=int(rng.integers(1, 3)), replace=False))
        return ("dict", {k: gen_schema(rng, case, depth + 1) for k in keys})
    if r < 0.50:
        if depth < 3 and rng.random() < 0.6:
            keys = list(rng.choice(ALPHA, size=int(rng.integers(1, 3)), replace=False))
            return ("index", ("dict", {k: ("leaf", _leaf_shape(rng, case)) for k in keys}))
        return ("index", ("leaf", _leaf_shape(rng, case)))
    return ("leaf", _leaf_shape(rng, case))


def _leaf_shape(rng, case):
    r = rng.random()
    if r < 0.55:
        return ()
    if r < 0.80:
        return (case.N,)
    return (case.N, case.K)


def schema_slots(node, path=()):
    """Yield (pattern, shape): pattern is a tuple of names and the placeholder None for an index level."""
    if node[0] == "leaf":
        yield path, node[1]
    elif node[0] == "dict":
        for k, v in node[1].items():
            yield from schema_slots(v, path + (k,))
    else:
        yield from schema_slots(node[1], path + (None,))


def schema_at(node, pattern):
    for c in pattern:
        if node[0] == "dict" and c is not None:
            node = node[1][c]
        elif node[0] == "index" and c is None:
            node = node[1]
        else:
            return None
    return node


# =========================================================================== leaves / paths


def gen_leaf(case, shape, allow_flag=True, allow_py=True):
    rng = case.rng
    integer = rng.random() < 0.12
    vals = case.fresh_vals(shape, integer)
    spec = {"shape": list(shape), "int": bool(integer), "py": False, "flag": None}
    if shape == () and allow_py and rng.random() < 0.45:
        spec["py"] = True
        spec["pyval"] = float(vals) if not integer else int(vals)
        spec["v"] = None
    else:
        spec["v"] = case.add_dyn(vals)
    if allow_flag:
        r = rng.random()
        if r < 0.10:
            spec["flag"] = ["py", bool(rng.random() < 0.7)]
        elif r < 0.28:
            spec["flag"] = ["arr", case.add_dyn(np.asarray(rng.random() < 0.6))]
        elif r < 0.36 and len(shape) >= 1:
            spec["flag"] = ["vec", case.add_dyn(rng.random(shape[0]) < 0.6)]
    return spec


def leaf_model(case, spec):
    v = np.asarray(spec["pyval"]) if spec["py"] else case.dyn[spec["v"]]
    fl = spec["flag"]
    if fl is None:
        return M.leaf(v)
    if fl[0] == "py":
        return M.leaf(v) if fl[1] else M.EMPTY
    f = case.dyn[fl[1]]
    return M.leaf(v, f, fshape=f.shape)


def inst_pattern(case, pattern, shape, allow_vec=True, allow_slice=True):
    """Instantiate a schema pattern into concrete components; returns (comps, leaf_shape)."""
    rng = case.rng
    comps = []
    lead = ()
    used_vec = False
    n_idx = sum(1 for c in pattern if c is None)
    seen_idx = 0
    for c in pattern:
        if c is not None:
            comps.append(["s", c])
            continue
        seen_idx += 1
        r = rng.random()
        if allow_vec and not used_vec and seen_idx == n_idx and r < 0.22:
            ln = int(rng.integers(2, 4))
            idxs = rng.choice(IDX, size=ln, replace=False).astype(np.int32)
            comps.append(["v", case.add_dyn(idxs)])
            lead = (ln,)
            used_vec = True
        elif r < 0.50 and not used_vec:
            comps.append(["i", case.add_dyn(np.asarray(int(rng.choice(IDX)), dtype=np.int32)), "arr"])
        elif not used_vec:
            comps.append(["i", int(rng.choice(IDX)), "py"])
        else:
            comps.append(["i", int(rng.choice(IDX)), "py"])
    # a python-int index after a vector index is refused by address validation: repair order
    if used_vec:
        vpos = next(i for i, c in enumerate(comps) if c[0] == "v")
        if any(c[0] == "i" for c in comps[vpos + 1:]):
            return inst_pattern(case, pattern, shape, allow_vec=False, allow_slice=allow_slice)
    full_shape = tuple(lead) + tuple(shape)
    if allow_slice and len(shape) >= 1 and rng.random() < 0.35:
        # a full slice is transparent: it names the leading axis of the (dense) leaf
        last_dyn = max([i for i, c in enumerate(comps) if c[0] != "s"], default=-1)
        pos = int(rng.integers(last_dyn + 1, len(comps) + 1))
        comps.insert(pos, ["sl"])
    return comps, full_shape


def comp_model(case, c):
    if c[0] == "s":
        return ("s", c[1])
    if c[0] == "sl":
        return ("sl",)
    if c[0] == "i":
        if c[2] == "py":
            return ("i", int(c[1]), "py")
        return ("i", int(case.dyn[c[1]]), "arr")
    if c[0] == "v":
        return ("v", tuple(int(k) for k in case.dyn[c[1]]))
    raise ValueError(c)


def extend_model(case, node, comps):
    for c in reversed(comps):
        node = M.extend(node, comp_model(case, c))
    return node


def random_path(case, maxlen=3):
    rng = case.rng
    ln = int(rng.integers(1, maxlen + 1))
    comps = []
    for _ in range(ln):
        if rng.random() < 0.75:
            comps.append(["s", str(rng.choice(ALPHA))])
        else:
            comps.append(["i", int(rng.choice(IDX)), "py"])
    return comps


# =========================================================================== selections


def gen_sel(rng, depth=0):
    r = rng.random()
    if depth >= 2 or r < 0.55:
        k = rng.random()
        if k < 0.08:
            return ["all"]
        if k < 0.14:
            return ["none"]
        ln = int(rng.integers(1, 4))
        comps = [str(rng.choice(ALPHA)) if rng.random() < 0.85 else "..." for _ in range(ln)]
        return ["leafat" if rng.random() < 0.2 else "at", comps]
    if r < 0.72:
        return ["or", gen_sel(rng, depth + 1), gen_sel(rng, depth + 1)]
    if r < 0.86:
        return ["and", gen_sel(rng, depth + 1), gen_sel(rng, depth + 1)]
    return ["not", gen_sel(rng, depth + 1)]


def sel_model(term):
    k = term[0]
    if k in ("all", "none"):
        return (k,)
    if k in ("at", "leafat"):
        return (k, tuple(Ellipsis if c == "..." else c for c in term[1]))
    if k == "not":
        return ("not", sel_model(term[1]))
    return (k, sel_model(term[1]), sel_model(term[2]))


def sel_real(G, term):
    S = G["Selection"]
    k = term[0]
    if k == "all":
        return S.all()
    if k == "none":
        return S.none()
    if k == "at":
        comps = tuple(Ellipsis if c == "..." else c for c in term[1])
        return S.at[comps] if len(comps) > 1 else S.at[comps[0]]
    if k == "leafat":
        comps = tuple(Ellipsis if c == "..." else c for c in term[1])
        return S.leaf().extend(*comps)
    if k == "not":
        return ~sel_real(G, term[1])
    a, b = sel_real(G, term[1]), sel_real(G, term[2])
    return (a | b) if k == "or" else (a & b)


# =========================================================================== step generation


def pick_map(case, recent_bias=True):
    n = len(case.models)
    if n == 0:
        return None
    rng = case.rng
    if recent_bias and rng.random() < 0.6:
        return int(n - 1 - min(rng.geometric(0.5) - 1, n - 1))
    return int(rng.integers(n))


def gen_fresh(case):
    """A step that builds a map from fresh values only."""
    rng = case.rng
    r = rng.random()
    if r < 0.10 or not case.slots:
        comps = random_path(case)
        return {"op": "set", "path": comps, "leaf": gen_leaf(case, ()), "via": str(rng.choice(["C", "entry", "extend"]))}
    if r < 0.55:
        if case.inst_history and rng.random() < 0.3:
            comps, full = case.inst_history[int(rng.integers(len(case.inst_history)))]
            comps = [list(c) for c in comps]
        else:
            pattern, shape = case.slots[int(rng.integers(len(case.slots)))]
            comps, full = inst_pattern(case, pattern, shape)
            if any(c[0] != "s" for c in comps):
                case.inst_history.append(([list(c) for c in comps], full))
        has_vec = any(c[0] == "v" for c in comps)
        leaf = gen_leaf(case, full, allow_flag=True)
        via = str(rng.choice(["C", "C", "entry", "extend"]))
        # vmapped builder: only when the vmapped index is the sole index component (an index
        # component that does not depend on the vmapped argument is broadcast by jax.vmap into
        # an index vector with repeated entries, which is outside the documented domain)
        if has_vec and rng.random() < 0.5 and leaf["flag"] is None and not any(c[0] == "i" for c in comps):
            via = "vmap"
        return {"op": "set", "path": comps, "leaf": leaf, "via": via}
    if r < 0.85:
        # a dict / kw / from_mapping literal rooted at a schema dict node
        cands = list(schema_dicts(case.schema))
        prefix, node = cands[int(rng.integers(len(cands)))]
        pcomps, lead = inst_pattern(case, prefix, (), allow_vec=True, allow_slice=False)
        items = _gen_items(case, node, lead, skip=0.25)
        how = str(rng.choice(["d", "kw", "from_mapping", "set-dict"]))
        if how == "kw" and any(len(k) != 1 for k, _ in items):
            how = "d"
        return {"op": "dict", "how": how, "prefix": pcomps, "items": items}
    if r < 0.93:
        # vmapped builder: value + flag per element
        pattern, shape = _static_slot(case)
        comps = [["s", c] for c in pattern]
        n = case.N
        shp = (n,) + tuple(shape[1:]) if shape else (n,)
        vals = case.add_dyn(case.fresh_vals(shp))
        flags = case.add_dyn(rng.random(n) < 0.6)
        return {"op": "vmap_mask", "path": comps, "v": vals, "f": flags, "shape": list(shp)}
    pattern, shape = _static_slot(case)
    comps = [["s", c] for c in pattern]
    n = case.N
    shp = (n,) + tuple(shape[1:]) if shape else (n,)
    return {
        "op": "vmap_or", "path": comps, "shape": list(shp),
        "v1": case.add_dyn(case.fresh_vals(shp)), "f1": case.add_dyn(rng.random(n) < 0.5),
        "v2": case.add_dyn(case.fresh_vals(shp)), "f2": case.add_dyn(rng.random(n) < 0.5),
        "eager": bool(rng.random() < 0.5),
    }


def _static_slot(case):
    st = [(p, s) for p, s in case.slots if all(c is not None for c in p)]
    dense = [(p, s) for p, s in st if len(s) >= 1]
    pool = dense or st
    if not pool:
        return ("a",), (case.N,)
    return pool[int(case.rng.integers(len(pool)))]


def schema_dicts(node, path=()):
    if node[0] == "dict":
        yield path, node
        for k, v in node[1].items():
            yield from schema_dicts(v, path + (k,))
    elif node[0] == "index":
        yield from schema_dicts(node[1], path + (None,))


def _gen_items(case, node, lead, skip=0.25):
    """Items of a dict literal following the schema below `node` (index levels of the schema
    are not part of a literal and are skipped)."""
    rng = case.rng
    items = []
    for k, v in node[1].items():
        if rng.random() < skip:
            continue
        if v[0] == "leaf":
            items.append([[k], ["leaf", gen_leaf(case, tuple(lead) + tuple(v[1]), allow_flag=rng.random() < 0.5)]])
        elif v[0] == "dict":
            sub = _gen_items(case, v, lead, skip)
            if rng.random() < 0.5:
                items.append([[k], ["dict", sub]])
            else:  # flattened tuple keys
                for kk, vv in sub:
                    items.append([[k] + kk, vv])
    if not items:
        k = str(rng.choice(ALPHA))
        v = node[1].get(k)
        shape = v[1] if (v is not None and v[0] == "leaf") else ()
        items.append([[k], ["leaf", gen_leaf(case, tuple(lead) + tuple(shape), allow_flag=False)]])
    return items


def items_model(case, items):
    """Model of from_mapping semantics as documented for d/kw (distinct addresses): the map
    holding every item.  Duplicated addresses never occur in generated literals."""
    acc = M.EMPTY
    for key, val in items:
        if val[0] == "leaf":
            nd = leaf_model(case, val[1])
        elif val[0] == "dict":
            nd = items_model(case, val[1])
        else:
            nd = case.models[val[1]]
        for c in reversed(key):
            nd = M.extend(nd, ("s", c))
        acc = M.union(acc, nd)
    return acc


def present_paths(node, limit=40):
    """Paths (str/int components) of the model's positions: inner positions and leaves."""
    out = []

    def rec(nd, p):
        if len(out) >= limit or nd is M.EMPTY or isinstance(nd, M.Unspec):
            return
        out.append((p, nd))
        if isinstance(nd, M.Dict):
            for k in sorted(nd.kids):
                rec(nd.kids[k], p + (k,))
        elif isinstance(nd, M.Index):
            for k in sorted(nd.kids):
                rec(nd.kids[k], p + (k,))

    rec(node, ())
    return out


def gen_combine(case, force=None):
    """force: None | (op, src) - used to make sure every anchored mechanism is exercised."""
    rng = case.rng
    n = len(case.models)
    ops = ["or", "at_set", "at_update", "extend", "switch", "mask", "filter", "submap", "and"]
    w = np.array([22, 10, 6, 8, 13, 13, 13, 8, 7], dtype=float)
    op = str(rng.choice(ops, p=w / w.sum()))
    a = pick_map(case)
    if force is not None:
        op = force[0].split(":")[0]
        if force[1] is not None:
            a = force[1]
    if op == "or":
        b = pick_map(case, recent_bias=False)
        return {"op": "or", "a": a, "b": b, "how": str(rng.choice(["|", "|", "+", "merge"]))}
    if op == "and":
        b = pick_map(case, recent_bias=False)
        return {"op": "and", "a": a, "b": b}
    if op == "extend":
        comps = []
        for _ in range(int(rng.integers(1, 3))):
            r = rng.random()
            if r < 0.6:
                comps.append(["s", str(rng.choice(ALPHA))])
            elif r < 0.8:
                comps.append(["i", int(rng.choice(IDX)), "py"])
            elif r < 0.95:
                comps.append(["i", case.add_dyn(np.asarray(int(rng.choice(IDX)), dtype=np.int32)), "arr"])
            else:
                comps.append(["sl"])
        return {"op": "extend", "src": a, "comps": comps}
    if op == "mask":
        r = rng.random()
        if r < 0.25:
            flag = ["py", bool(rng.random() < 0.5)]
        elif r < 0.8:
            flag = ["arr", case.add_dyn(np.asarray(rng.random() < 0.6))]
        else:
            d = M.dense_dim(case.models[a])
            ln = d if (d is not None and rng.random() < 0.85) else case.N
            flag = ["vec", case.add_dyn(rng.random(ln) < 0.6)]
        return {"op": "mask", "src": a, "flag": flag}
    if op == "filter":
        return {"op": "filter", "src": a, "sel": gen_sel(rng), "how": str(rng.choice(["filter", "sel.filter"]))}
    if op == "switch":
        k = int(rng.integers(2, 4))
        maps = [pick_map(case, recent_bias=False) for _ in range(k)]
        concrete = bool(rng.random() < 0.3) and not (force is not None and force[0] == "switch:arr")
        if concrete:
            idx = int(rng.integers(0, k))
        else:
            # in range mostly; out of range (nothing selected) sometimes
            idx = case.add_dyn(np.asarray(int(rng.integers(0, k)) if rng.random() < 0.85 else int(rng.choice([k, k + 2, -1])), dtype=np.int32))
        nest = []
        if rng.random() < 0.3:
            nest = [["s", str(rng.choice(ALPHA))]]
        return {"op": "switch", "idx": idx, "concrete": concrete, "maps": maps, "nest": nest}
    pp = present_paths(case.models[a])
    if op == "submap":
        if pp and rng.random() < 0.85:
            p, _ = pp[int(rng.integers(len(pp)))]
            if len(p) == 0 and len(pp) > 1:
                p, _ = pp[int(rng.integers(1, len(pp)))]
            path = [["s", c] if isinstance(c, str) else ["i", int(c), "py"] for c in p]
        else:
            path = random_path(case, 2)
        if not path:
            path = [["s", str(rng.choice(ALPHA))]]
        return {"op": "submap", "src": a, "path": path, "how": str(rng.choice(["get_submap", "call", "splat", "chain"]))}
    if op == "at_set":
        if pp and rng.random() < 0.6:
            p, nd = pp[int(rng.integers(len(pp)))]
            path = [["s", c] if isinstance(c, str) else ["i", int(c), "py"] for c in p]
            shape = nd.val.shape if isinstance(nd, M.Leaf) else ()
        else:
            if case.slots and rng.random() < 0.8:
                pattern, shape = case.slots[int(rng.integers(len(case.slots)))]
                path, shape = inst_pattern(case, pattern, shape, allow_vec=False, allow_slice=False)
            else:
                path, shape = random_path(case), ()
        if not path:
            path = [["s", str(rng.choice(ALPHA))]]
            shape = ()
        if rng.random() < 0.25 and n > 1:
            val = ["map", pick_map(case, recent_bias=False)]
        else:
            val = ["leaf", gen_leaf(case, tuple(shape), allow_flag=rng.random() < 0.4)]
        return {"op": "at_set", "src": a, "path": path, "val": val}
    # at_update
    if pp and rng.random() < 0.75:
        p, nd = pp[int(rng.integers(len(pp)))]
        path = [["s", c] if isinstance(c, str) else ["i", int(c), "py"] for c in p]
    else:
        path, nd = random_path(case, 2), None
    if not path:
        path = [["s", str(rng.choice(ALPHA))]]
        nd = None
    tgt = M.lookup(case.models[a], tuple(c[1] for c in path))
    if isinstance(tgt, M.Leaf) and tgt.bare:
        mode = "scale" if rng.random() < 0.7 else "const"
    elif tgt is M.EMPTY or isinstance(tgt, (M.Leaf, M.Unspec)):
        mode = "const"
    else:
        mode = "nest" if rng.random() < 0.6 else "const"
    return {"op": "at_update", "src": a, "path": path, "mode": mode, "const": gen_leaf(case, (), allow_flag=False), "nestkey": str(rng.choice(ALPHA))}


# =========================================================================== model execution


def step_deps(step):
    op = step["op"]
    if op in ("or", "and"):
        return [step["a"], step["b"]]
    if op in ("extend", "mask", "filter", "submap", "at_update"):
        return [step["src"]]
    if op == "at_set":
        return [step["src"]] + ([step["val"][1]] if step["val"][0] == "map" else [])
    if op == "switch":
        return list(step["maps"])
    return []


def path_keys(case, path):
    """Lookup keys (str / int) of a components list that has only 's' and python 'i' comps."""
    return tuple(c[1] if c[0] == "s" else int(c[1]) for c in path)


def model_step(case, step):
    ms = case.models
    op = step["op"]
    if op == "set":
        return extend_model(case, leaf_model(case, step["leaf"]), step["path"])
    if op == "dict":
        return extend_model(case, items_model(case, step["items"]), step["prefix"])
    if op == "vmap_mask":
        f = case.dyn[step["f"]]
        nd = M.leaf(case.dyn[step["v"]], f, fshape=f.shape)
        return extend_model(case, nd, step["path"])
    if op == "vmap_or":
        f1, f2 = case.dyn[step["f1"]], case.dyn[step["f2"]]
        a = M.leaf(case.dyn[step["v1"]], f1, fshape=f1.shape)
        b = M.leaf(case.dyn[step["v2"]], f2, fshape=f2.shape)
        u = M.union(a, b)
        if not step["eager"] and isinstance(u, M.Leaf):
            # built under jax.vmap: the documented elementwise semantics, no eager shape issue
            u = M.Leaf(u.val, u.flag, bare=False, fshape=u.fshape, taint=frozenset())
        return extend_model(case, u, step["path"])
    if op == "or":
        return M.union(ms[step["a"]], ms[step["b"]])
    if op == "and":
        supp, valid, unknown, _via = M.static_addresses(ms[step["a"]])
        if unknown or supp != valid:
            # the selection of a map is static: addresses held only by invalid entries are a
            # grey zone -> keep definitely-selected, drop definitely-unselected, rest unspecified
            def pred3(addr):
                return addr in valid

            grey = (supp - valid) | {u for u in unknown}
            return _filter3(ms[step["b"]], valid, grey, unknown)
        return M.filter_static(ms[step["b"]], lambda addr: addr in supp)
    if op == "extend":
        return extend_model(case, ms[step["src"]], step["comps"])
    if op == "mask":
        fl = step["flag"]
        if fl[0] == "py":
            return M.mask(ms[step["src"]], fl[1], True)
        return M.mask(ms[step["src"]], case.dyn[fl[1]], False)
    if op == "filter":
        st = sel_model(step["sel"])
        return M.filter_static(ms[step["src"]], lambda addr: M.sel_eval(st, addr))
    if op == "switch":
        nodes = [ms[k] for k in step["maps"]]
        if step["concrete"]:
            r = M.switch(step["idx"], nodes, True)
        else:
            r = M.switch(int(case.dyn[step["idx"]]), nodes, False)
        return extend_model(case, r, step["nest"])
    if op == "submap":
        return M.lookup(ms[step["src"]], path_keys(case, step["path"]))
    if op == "at_set":
        v = step["val"]
        nd = leaf_model(case, v[1]) if v[0] == "leaf" else ms[v[1]]
        return M.union(extend_model(case, nd, step["path"]), ms[step["src"]])
    if op == "at_update":
        src = ms[step["src"]]
        sub = M.lookup(src, path_keys(case, step["path"]))
        mode = step["mode"]
        if mode == "scale":
            assert isinstance(sub, M.Leaf) and sub.bare
            new = M.Leaf(sub.val * 2.0 + 1.0, sub.flag, bare=True, fshape=())
        elif mode == "const":
            new = leaf_model(case, step["const"])
        else:
            new = M.extend(sub, ("s", step["nestkey"]))
        return M.union(extend_model(case, new, step["path"]), src)
    raise ValueError(op)


def _filter3(node, keep, grey, unknown_prefixes, spath=()):
    if node is M.EMPTY or isinstance(node, M.Unspec):
        return node
    if any(spath[: len(u)] == u for u in unknown_prefixes):
        return M.Unspec("selection-of-unspecified")
    if isinstance(node, M.Leaf):
        if spath in keep:
            return node
        if spath in grey:
            return M.Unspec("selection-of-invalid-entry")
        return M.EMPTY
    if isinstance(node, M.Dict):
        return M.mk_dict({k: _filter3(v, keep, grey, unknown_prefixes, spath + (k,)) for k, v in node.kids.items()})
    if isinstance(node, M.Index):
        return M.mk_index({k: _filter3(v, keep, grey, unknown_prefixes, spath) for k, v in node.kids.items()}, _filter3(node.shadow, keep, grey, unknown_prefixes, spath), node.vec)
    raise TypeError(node)


# =========================================================================== real execution


def real_env():
    import jax
    import jax.numpy as jnp
    from genjax import ChoiceMap, Mask, Selection
    from genjax import ChoiceMapBuilder as C

    return {"jax": jax, "jnp": jnp, "ChoiceMap": ChoiceMap, "Mask": Mask, "Selection": Selection, "C": C}


def comp_real(G, dyn, c):
    if c[0] == "s":
        return c[1]
    if c[0] == "sl":
        return slice(None, None, None)
    if c[0] == "i":
        return int(c[1]) if c[2] == "py" else dyn[c[1]]
    return dyn[c[1]]


def leaf_real(G, dyn, spec):
    v = spec["pyval"] if spec["py"] else dyn[spec["v"]]
    fl = spec["flag"]
    if fl is None:
        return v
    if fl[0] == "py":
        return G["Mask"](v, bool(fl[1]))
    return G["Mask"](v, dyn[fl[1]])


def items_real(G, dyn, pool, items, as_pairs=False):
    out = []
    for key, val in items:
        if val[0] == "leaf":
            v = leaf_real(G, dyn, val[1])
        elif val[0] == "dict":
            v = dict(items_real(G, dyn, pool, val[1]))
        else:
            v = pool[val[1]]
        k = key[0] if len(key) == 1 else tuple(key)
        out.append((k, v))
    return out


def realize(G, dyn, pool, step):
    """Execute one step with the real library. `dyn` holds jax arrays (or tracers)."""
    jax, C, ChoiceMap = G["jax"], G["C"], G["ChoiceMap"]
    op = step["op"]
    if op == "set":
        comps = [comp_real(G, dyn, c) for c in step["path"]]
        v = leaf_real(G, dyn, step["leaf"])
        via = step["via"]
        if via == "C":
            return C[tuple(comps)].set(v)
        if via == "entry":
            return ChoiceMap.entry(v, *comps)
        if via == "extend":
            return ChoiceMap.choice(v).extend(*comps)
        if via == "vmap":
            vpos = next(i for i, c in enumerate(step["path"]) if c[0] == "v")

            def one(i, x):
                cs = list(comps)
                cs[vpos] = i
                # inside vmap the full slices that named trailing axes still apply per element
                return C[tuple(cs)].set(x)

            return jax.vmap(one)(comps[vpos], v)
        raise ValueError(via)
    if op == "dict":
        how = step["how"]
        pairs = items_real(G, dyn, pool, step["items"])
        prefix = [comp_real(G, dyn, c) for c in step["prefix"]]
        if how == "d":
            m = ChoiceMap.d(dict(pairs))
        elif how == "kw":
            m = ChoiceMap.kw(**dict(pairs))
        elif how == "from_mapping":
            m = ChoiceMap.from_mapping(pairs)
        else:
            if prefix:
                return C[tuple(prefix)].set(dict(pairs))
            m = ChoiceMap.d(dict(pairs))
        return m.extend(*prefix) if prefix else m
    if op == "vmap_mask":
        comps = tuple(comp_real(G, dyn, c) for c in step["path"])
        return jax.vmap(lambda v, f: C[comps].set(v).mask(f))(dyn[step["v"]], dyn[step["f"]])
    if op == "vmap_or":
        comps = tuple(comp_real(G, dyn, c) for c in step["path"])
        if step["eager"]:
            return C[comps].set(dyn[step["v1"]]).mask(dyn[step["f1"]]) | C[comps].set(dyn[step["v2"]]).mask(dyn[step["f2"]])
        return jax.vmap(lambda v, f, w, g: C[comps].set(v).mask(f) | C[comps].set(w).mask(g))(
            dyn[step["v1"]], dyn[step["f1"]], dyn[step["v2"]], dyn[step["f2"]]
        )
    if op == "or":
        a, b = pool[step["a"]], pool[step["b"]]
        how = step["how"]
        if how == "|":
            return a | b
        if how == "+":
            return a + b
        return a.merge(b)
    if op == "and":
        return pool[step["a"]] & pool[step["b"]]
    if op == "extend":
        return pool[step["src"]].extend(*[comp_real(G, dyn, c) for c in step["comps"]])
    if op == "mask":
        fl = step["flag"]
        return pool[step["src"]].mask(bool(fl[1]) if fl[0] == "py" else dyn[fl[1]])
    if op == "filter":
        s = sel_real(G, step["sel"])
        return pool[step["src"]].filter(s) if step["how"] == "filter" else s.filter(pool[step["src"]])
    if op == "switch":
        maps = [pool[k] for k in step["maps"]]
        idx = int(step["idx"]) if step["concrete"] else dyn[step["idx"]]
        if step["nest"]:
            return C[tuple(comp_real(G, dyn, c) for c in step["nest"])].switch(idx, maps)
        return ChoiceMap.switch(idx, maps)
    if op == "submap":
        src = pool[step["src"]]
        keys = tuple(comp_real(G, dyn, c) for c in step["path"])
        how = step["how"]
        if how == "get_submap":
            return src.get_submap(keys)
        if how == "call":
            return src(keys)
        if how == "splat":
            return src.get_submap(*keys)
        out = src
        for k in keys:
            out = out(k)
        return out
    if op == "at_set":
        v = step["val"]
        val = leaf_real(G, dyn, v[1]) if v[0] == "leaf" else pool[v[1]]
        return pool[step["src"]].at[tuple(comp_real(G, dyn, c) for c in step["path"])].set(val)
    if op == "at_update":
        keys = tuple(comp_real(G, dyn, c) for c in step["path"])
        mode = step["mode"]
        if mode == "scale":
            f = lambda v: v * 2.0 + 1.0  # noqa: E731
        elif mode == "const":
            cv = leaf_real(G, dyn, step["const"])
            f = lambda _v: cv  # noqa: E731
        else:
            nk = step["nestkey"]
            f = lambda m: C[nk].set(m)  # noqa: E731
        return pool[step["src"]].at[keys].update(f)
    raise ValueError(op)
