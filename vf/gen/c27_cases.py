"""C27 workloads: hand-templated models x proposals for `Rejuvenate`, each with an independent
closed-form reference (numpy/scipy float64, vf.ref.dens).

A case = model template (random parameters, full start assignment) + request style + proposal
kind.  The genjax side is written with jnp; the reference side (`logp`, `qargs`, `logq`) is a
separate numpy transcription of the *mathematical* model/proposal, never derived from genjax.

Case fields
    model, args            genjax generative function and its arguments
    start                  {address tuple: value}: the complete start assignment
    constraint             genjax ChoiceMap holding `start` (used with model.importance)
    request                the edit request to apply at the top of the trace
    proposed               addresses (tuples) the proposal writes
    logp(vals)             reference joint log density of the model at an assignment
    qargs(vals)            reference proposal arguments computed from an assignment (the state)
    logq(pvals, qa)        reference proposal log density of the proposed values given arguments
    pname, style, mname    labels;  state_dep: do the proposal arguments depend on the state;
    reads_unproposed       does the argument mapping read an address the proposal does not write
    tap                    list that receives the values the (gen-function) proposal body saw, or None
"""

from __future__ import annotations

import numpy as np

from vf.ref import dens


def _r(rng, lo, hi, nd=3):
    return float(np.round(rng.uniform(lo, hi), nd))


def _rv(rng, lo, hi, n, nd=3):
    return np.round(rng.uniform(lo, hi, size=n), nd)


def lp_lognormal(v, mu, sigma):
    v = np.asarray(v, float)
    return float(np.sum(-np.log(v) - np.log(sigma) - 0.5 * np.log(2 * np.pi) - 0.5 * ((np.log(v) - mu) / sigma) ** 2))


def lp_cauchy(v, loc, scale):
    z = (np.asarray(v, float) - loc) / scale
    return float(np.sum(-np.log(np.pi * scale * (1.0 + z * z))))


# ------------------------------------------------------------------------------------ models
# Every model builder returns (model, args, start, logp, info) where info lists which addresses
# are real scalars / positive scalars / vectors so that compatible proposals can be attached.


def model_chain(rng, genjax, jnp):
    a, s1, c, s2, d, s3 = _r(rng, -1, 1), _r(rng, 0.6, 1.8), _r(rng, -1.2, 1.2), _r(rng, 0.5, 1.5), _r(rng, -1, 1), _r(rng, 0.4, 1.2)

    @genjax.gen
    def chain(a_):
        x = genjax.normal(a_, s1) @ "x"
        z = genjax.normal(c * x, s2) @ "z"
        y = genjax.normal(x + d * z, s3) @ "y"
        return y

    start = {("x",): _r(rng, -1.5, 1.5), ("z",): _r(rng, -1.5, 1.5), ("y",): _r(rng, -1.5, 1.5)}

    def logp(v):
        x, z, y = v[("x",)], v[("z",)], v[("y",)]
        return dens.lp_normal(x, a, s1) + dens.lp_normal(z, c * x, s2) + dens.lp_normal(y, x + d * z, s3)

    return chain, (a,), start, logp, {"name": "chain", "real": [("x",), ("z",)], "pair": (("x",), ("z",))}


def model_pos(rng, genjax, jnp):
    k, rate, s0, b = _r(rng, 1.5, 4.0), _r(rng, 0.8, 2.5), _r(rng, 0.6, 1.6), _r(rng, 0.2, 0.8)

    @genjax.gen
    def pos():
        r = genjax.gamma(k, rate) @ "r"
        x = genjax.normal(0.0, s0) @ "x"
        y = genjax.normal(x, b + r) @ "y"
        return y

    start = {("r",): _r(rng, 0.4, 2.5), ("x",): _r(rng, -1.5, 1.5), ("y",): _r(rng, -1.5, 1.5)}

    def logp(v):
        r, x, y = v[("r",)], v[("x",)], v[("y",)]
        if r <= 0:
            return -np.inf
        return dens.lp_gamma(r, k, rate) + dens.lp_normal(x, 0.0, s0) + dens.lp_normal(y, x, b + r)

    return pos, (), start, logp, {"name": "pos", "real": [("x",)], "positive": [("r",)], "pair": (("x",), ("r",))}


def model_hier(rng, genjax, jnp):
    m0, s1, bl, s3 = _r(rng, -1, 1), _r(rng, 0.6, 1.6), _r(rng, 0.5, 1.5), _r(rng, 0.4, 1.2)

    @genjax.gen
    def inner(m):
        u = genjax.normal(m, s1) @ "u"
        v = genjax.laplace(u, bl) @ "v"
        return v

    @genjax.gen
    def hier():
        m = genjax.normal(m0, 1.0) @ "m"
        v = inner(m) @ "s"
        y = genjax.normal(v * 0.5 + m, s3) @ "y"
        return y

    start = {("m",): _r(rng, -1.5, 1.5), ("s", "u"): _r(rng, -1.5, 1.5), ("s", "v"): _r(rng, -1.5, 1.5), ("y",): _r(rng, -1.5, 1.5)}

    def logp(val):
        m, u, v, y = val[("m",)], val[("s", "u")], val[("s", "v")], val[("y",)]
        return dens.lp_normal(m, m0, 1.0) + dens.lp_normal(u, m, s1) + dens.lp_laplace(v, u, bl) + dens.lp_normal(y, v * 0.5 + m, s3)

    return hier, (), start, logp, {"name": "hier", "real": [("m",), ("s", "u"), ("s", "v")], "sub": "s", "pair": (("s", "u"), ("s", "v"))}


def model_vec(rng, genjax, jnp):
    n = int(rng.integers(2, 5))
    mu, sc, co, s3 = _rv(rng, -1, 1, n), _rv(rng, 0.6, 1.6, n), _rv(rng, -1, 1, n), _r(rng, 0.4, 1.2)
    jmu, jsc, jco = jnp.asarray(mu, jnp.float32), jnp.asarray(sc, jnp.float32), jnp.asarray(co, jnp.float32)

    @genjax.gen
    def vec():
        w = genjax.normal(jmu, jsc) @ "w"
        y = genjax.normal(jnp.sum(w * jco), s3) @ "y"
        return y

    start = {("w",): _rv(rng, -1.5, 1.5, n), ("y",): _r(rng, -1.5, 1.5)}

    def logp(v):
        w, y = np.asarray(v[("w",)], float), v[("y",)]
        return dens.lp_normal(w, mu, sc) + dens.lp_normal(y, float(np.sum(w * co)), s3)

    return vec, (), start, logp, {"name": "vec", "vector": [("w",)]}


def model_switch(rng, genjax, jnp):
    """A switch between two normals at one shared address, driven by an index that may lie outside
    the branch range (the combinator clamps it), as a Python int or an array."""
    m1, s1, m2, s2, s3 = _r(rng, -1, 1), _r(rng, 0.6, 1.6), _r(rng, 1.0, 3.0), _r(rng, 0.4, 1.2), _r(rng, 0.4, 1.2)
    k = int(rng.choice([-2, -1, 0, 1, 2, 5]))
    idx = jnp.asarray(k, jnp.int32) if rng.random() < 0.7 else k
    sw = genjax.normal.switch(genjax.normal)

    @genjax.gen
    def swm(i):
        x = sw(i, (m1, s1), (m2, s2)) @ "s"
        y = genjax.normal(x, s3) @ "y"
        return y

    kk = min(max(k, 0), 1)
    mm, ss = (m1, s1) if kk == 0 else (m2, s2)
    start = {("s",): _r(rng, -1.5, 1.5), ("y",): _r(rng, -1.5, 1.5)}

    def logp(v):
        x, y = v[("s",)], v[("y",)]
        return dens.lp_normal(x, mm, ss) + dens.lp_normal(y, x, s3)

    return swm, (idx,), start, logp, {"name": "switch", "real": [("s",)]}


MODELS = [model_chain, model_pos, model_hier, model_vec, model_switch]


# --------------------------------------------------------------------------------- proposals
# Leaf proposals: a genjax distribution + a function cur -> args (jnp) + reference (numpy).


def leaf_proposal(rng, genjax, jnp, domain, vector=False):
    """Returns (name, dist, jargs(cur), nargs(cur), logq(val, args), state_dep)."""
    if domain == "real":
        kinds = ["rw_asym", "rw_sym", "indep", "drift", "laplace_rw", "cauchy_rw"]
        kind = kinds[int(rng.integers(len(kinds)))]
        if vector and kind == "cauchy_rw":
            kind = "rw_asym"
        a, b, c = _r(rng, 0.2, 0.6), _r(rng, 0.3, 0.9), _r(rng, 0.3, 1.0)
        rho, dl = _r(rng, 0.3, 0.9), _r(rng, -0.5, 0.5)
        m0, s0 = _r(rng, -0.5, 0.5), _r(rng, 0.8, 1.6)
        if kind == "rw_asym":
            return kind, genjax.normal, (lambda v: (v, a + b * jnp.abs(v))), (lambda v: (v, a + b * np.abs(v))), dens.lp_normal, True
        if kind == "rw_sym":
            return kind, genjax.normal, (lambda v: (v, c * jnp.ones_like(v))), (lambda v: (v, c * np.ones_like(v))), dens.lp_normal, True
        if kind == "indep":
            return kind, genjax.normal, (lambda v: (m0 * jnp.ones_like(v), s0 * jnp.ones_like(v))), (lambda v: (m0 * np.ones_like(v), s0 * np.ones_like(v))), dens.lp_normal, False
        if kind == "drift":
            return kind, genjax.normal, (lambda v: (rho * v + dl, c * jnp.ones_like(v))), (lambda v: (rho * v + dl, c * np.ones_like(v))), dens.lp_normal, True
        if kind == "laplace_rw":
            return kind, genjax.laplace, (lambda v: (v, a + b * jnp.abs(v))), (lambda v: (v, a + b * np.abs(v))), dens.lp_laplace, True
        return kind, genjax.cauchy, (lambda v: (v, a + b * jnp.abs(v))), (lambda v: (v, a + b * np.abs(v))), lp_cauchy, True
    # positive scalar
    kinds = ["gamma_walk", "lognormal_walk", "exp_walk", "gamma_indep"]
    kind = kinds[int(rng.integers(len(kinds)))]
    k, s = _r(rng, 2.0, 6.0), _r(rng, 0.3, 0.8)
    if kind == "gamma_walk":  # mean = current value
        return kind, genjax.gamma, (lambda v: (k * jnp.ones_like(v), k / v)), (lambda v: (k, k / v)), dens.lp_gamma, True
    if kind == "lognormal_walk":
        return kind, genjax.log_normal, (lambda v: (jnp.log(v), s * jnp.ones_like(v))), (lambda v: (np.log(v), s)), lp_lognormal, True
    if kind == "exp_walk":
        return kind, genjax.exponential, (lambda v: (1.0 / v,)), (lambda v: (1.0 / v,)), dens.lp_exponential, True
    return kind, genjax.gamma, (lambda v: (k * jnp.ones_like(v), 2.0 * jnp.ones_like(v))), (lambda v: (k, 2.0)), dens.lp_gamma, False


def _nest_request(genjax, addr, req):
    from genjax._src.generative_functions.static import StaticRequest

    for a in reversed(addr):
        req = StaticRequest({a: req})
    return req


def _constraint(genjax, jnp, start):
    C = genjax.ChoiceMap
    chm = C.empty()
    for addr, v in start.items():
        chm = chm | C.empty().at[addr if len(addr) > 1 else addr[0]].set(jnp.asarray(v, jnp.float32))
    return chm


def build_case(rng, genjax, jnp, want_tap=False):
    """Draw one case.  All randomness from `rng`."""
    from genjax.inference.requests import Rejuvenate

    mb = MODELS[int(rng.integers(len(MODELS)))]
    model, args, start, logp, info = mb(rng, genjax, jnp)
    styles = ["leaf"]
    if "pair" in info:
        styles += ["whole_joint", "whole_cond", "whole_mixed"]
    if "sub" in info:
        styles += ["sub_gen", "sub_gen"]
    style = styles[int(rng.integers(len(styles)))]
    case = dict(model=model, args=args, start=start, logp=logp, mname=info["name"], style=style, tap=None)
    case["constraint"] = _constraint(genjax, jnp, start)

    if style == "leaf":
        pool = [(a, "real", False) for a in info.get("real", [])] + [(a, "pos", False) for a in info.get("positive", [])] + [(a, "real", True) for a in info.get("vector", [])]
        addr, dom, isvec = pool[int(rng.integers(len(pool)))]
        pname, dist, jargs, nargs, lq, dep = leaf_proposal(rng, genjax, jnp, dom, vector=isvec)
        def _cur(chm):
            # a switch trace reports its choice as Mask(value, flag): the mapping reads the value
            v = chm.get_value()
            return v.value if type(v).__name__ == "Mask" else v

        rej = Rejuvenate(dist, lambda chm: jargs(_cur(chm)))
        case.update(
            request=_nest_request(genjax, addr, rej),
            proposed=[addr],
            qargs=lambda vals: nargs(np.asarray(vals[addr], float)),
            logq=lambda pv, qa: lq(pv[addr], *qa),
            pname=pname + ("_vec" if isvec else ""),
            state_dep=dep,
            reads_unproposed=False,
        )
        return case

    a, b, c, d, e = _r(rng, 0.2, 0.6), _r(rng, 0.3, 0.9), _r(rng, -0.8, 0.8), _r(rng, 0.3, 0.9), _r(rng, 0.2, 0.7)
    tap = [] if want_tap else None
    case["tap"] = tap

    def rec(name):
        def _f(v):
            tap.append((name, float(v)))

        return _f

    import jax

    if style in ("whole_joint", "whole_cond", "whole_mixed"):
        p1, p2 = info["pair"]
        positive2 = p2 in info.get("positive", [])
        # the proposal addresses the model's own (possibly hierarchical) addresses
        k1 = p1 if len(p1) > 1 else p1[0]
        k2 = p2 if len(p2) > 1 else p2[0]

        if style == "whole_joint":
            # x' ~ N(x, a + b|z|);  then z' | x' : real: N(z + c x', d)   positive: lognormal(log z + c*tanh(x'), e)
            @genjax.gen
            def prop(x, z):
                xn = genjax.normal(x, a + b * jnp.abs(z)) @ k1
                if tap is not None:
                    jax.debug.callback(rec("p1"), xn)
                if positive2:
                    zn = genjax.log_normal(jnp.log(z) + c * jnp.tanh(xn), e) @ k2
                else:
                    zn = genjax.normal(z + c * xn, d) @ k2
                if tap is not None:
                    jax.debug.callback(rec("p2"), zn)
                return xn

            def logq(pv, qa):
                x, z = qa
                xn, zn = pv[p1], pv[p2]
                l1 = dens.lp_normal(xn, x, a + b * abs(z))
                if positive2:
                    return l1 + lp_lognormal(zn, np.log(z) + c * np.tanh(xn), e)
                return l1 + dens.lp_normal(zn, z + c * xn, d)

            case.update(proposed=[p1, p2], logq=logq, reads_unproposed=False, state_dep=True)
        elif style == "whole_cond":
            # Gibbs-like: x' ~ N(c z, d + e|z|): arguments read only an address the proposal does not write
            @genjax.gen
            def prop(x, z):
                xn = genjax.normal(c * z, d + e * jnp.abs(z)) @ k1
                if tap is not None:
                    jax.debug.callback(rec("p1"), xn)
                return xn

            case.update(proposed=[p1], logq=lambda pv, qa: dens.lp_normal(pv[p1], c * qa[1], d + e * abs(qa[1])), reads_unproposed=True, state_dep=False)
        else:
            # x' ~ N(x + c, a + b|z|): arguments read the written address and an unwritten one
            @genjax.gen
            def prop(x, z):
                xn = genjax.normal(x + c, a + b * jnp.abs(z)) @ k1
                if tap is not None:
                    jax.debug.callback(rec("p1"), xn)
                return xn

            case.update(proposed=[p1], logq=lambda pv, qa: dens.lp_normal(pv[p1], qa[0] + c, a + b * abs(qa[1])), reads_unproposed=True, state_dep=True)
        rej = Rejuvenate(prop, lambda chm: (chm[k1], chm[k2]))
        case.update(request=rej, qargs=lambda vals: (float(vals[p1]), float(vals[p2])), pname=style)
        return case

    # style == "sub_gen": a gen-function proposal for the sub-call's trace, request routed by StaticRequest
    sub = info["sub"]
    variant = ["u_given_uv", "uv_joint", "v_given_u"][int(rng.integers(3))]
    pu, pv_ = (sub, "u"), (sub, "v")
    if variant == "u_given_uv":

        @genjax.gen
        def prop(u, v):
            un = genjax.normal(u, a + b * jnp.abs(v - u)) @ "u"
            if tap is not None:
                jax.debug.callback(rec("p1"), un)
            return un

        case.update(proposed=[pu], logq=lambda pv, qa: dens.lp_normal(pv[pu], qa[0], a + b * abs(qa[1] - qa[0])), reads_unproposed=True, state_dep=True)
    elif variant == "uv_joint":

        @genjax.gen
        def prop(u, v):
            un = genjax.normal(u, a + b * jnp.abs(v)) @ "u"
            vn = genjax.laplace(v + c * (un - u), d) @ "v"
            if tap is not None:
                jax.debug.callback(rec("p1"), un)
                jax.debug.callback(rec("p2"), vn)
            return un

        case.update(
            proposed=[pu, pv_],
            logq=lambda pv, qa: dens.lp_normal(pv[pu], qa[0], a + b * abs(qa[1])) + dens.lp_laplace(pv[pv_], qa[1] + c * (pv[pu] - qa[0]), d),
            reads_unproposed=False,
            state_dep=True,
        )
    else:

        @genjax.gen
        def prop(u, v):
            vn = genjax.normal(c * u, d + e * jnp.abs(u)) @ "v"
            if tap is not None:
                jax.debug.callback(rec("p1"), vn)
            return vn

        case.update(proposed=[pv_], logq=lambda pv, qa: dens.lp_normal(pv[pv_], c * qa[0], d + e * abs(qa[0])), reads_unproposed=True, state_dep=False)
    rej = Rejuvenate(prop, lambda chm: (chm["u"], chm["v"]))
    case.update(request=_nest_request(genjax, (sub,), rej), qargs=lambda vals: (float(vals[pu]), float(vals[pv_])), pname="sub_" + variant)
    return case
