"""Taps: wrappers installed on the real classes *from outside the repository* (class attributes
are replaced after `import genjax`; beartype's wrapper stays in the call path), plus in-graph
probes (jax.debug.callback) that stream runtime values out of vmap / scan / cond / jit.

Key ledger (C04): every sampler invocation that actually executes reports the PRNG key it
consumed together with a static *site context* captured at trace time:
  ("addr", <static address>)         pushed by the static-language handlers' handle_trace
  ("switch", <call id>, <branch>)    pushed around each branch function given to multi_switch
Offline rule: within one top-level GFI call no two executed sampler invocations may have used
the same key, unless their contexts diverge at two different branches of one multi_switch call
(a batched switch runs every branch with one key by design and selects one result).
"""

from __future__ import annotations

import threading

import numpy as np

_state = threading.local()


def _st():
    if not hasattr(_state, "stack"):
        _state.stack = []
        _state.events = []
        _state.ctxs = []
        _state.installed = False
        _state.switch_calls = 0
        _state.enabled = False
    return _state


def enabled(flag: bool):
    _st().enabled = flag


def reset():
    s = _st()
    s.events = []
    s.ctxs = []
    s.stack = []


def events():
    """[(key_data tuple, ctx tuple)] of executed sampler invocations since reset()."""
    import jax

    jax.effects_barrier()
    s = _st()
    return [(k, s.ctxs[c]) for k, c in s.events]


def install():
    """Idempotent.  Returns the list of tap names installed (evaluations are counted by use)."""
    s = _st()
    if s.installed:
        return s.installed
    import jax

    from genjax._src.generative_functions import static as static_mod
    from genjax._src.generative_functions.combinators import switch as switch_mod
    from genjax._src.generative_functions.distributions import distribution as dist_mod

    names = []

    # ---- sampler tap
    ED = dist_mod.ExactDensity
    orig_rw = ED.random_weighted

    def random_weighted(self, key, *args):
        if s.enabled:
            ctx = tuple(s.stack)
            s.ctxs.append(ctx + (("dist", type(self).__name__),))
            cid = len(s.ctxs) - 1

            def _rec(kd):
                s.events.append((tuple(int(x) for x in np.asarray(kd).ravel()), cid))

            try:
                kd = jax.random.key_data(key)
            except Exception:
                kd = key
            jax.debug.callback(_rec, kd)
        return orig_rw(self, key, *args)

    ED.random_weighted = random_weighted
    names.append("ExactDensity.random_weighted")

    # ---- static handlers: address context
    for cls_name in ("SimulateHandler", "GenerateHandler", "UpdateHandler", "StaticEditRequestHandler", "RegenerateRequestHandler"):
        cls = getattr(static_mod, cls_name)
        orig = cls.handle_trace

        def make(orig):
            def handle_trace(self, addr, gen_fn, args):
                if not s.enabled:
                    return orig(self, addr, gen_fn, args)
                s.stack.append(("addr", addr))
                try:
                    return orig(self, addr, gen_fn, args)
                finally:
                    s.stack.pop()

            return handle_trace

        cls.handle_trace = make(orig)
        names.append(f"{cls_name}.handle_trace")

    # ---- multi_switch: branch context (patch the name the switch module looks up at call time)
    orig_ms = switch_mod.multi_switch

    def multi_switch(idx, branches, arg_tuples):
        if not s.enabled:
            return orig_ms(idx, branches, arg_tuples)
        s.switch_calls += 1
        call_id = s.switch_calls

        def wrap(i, f):
            def g(*a):
                s.stack.append(("switch", call_id, i))
                try:
                    return f(*a)
                finally:
                    s.stack.pop()

            return g

        return orig_ms(idx, [wrap(i, f) for i, f in enumerate(branches)], arg_tuples)

    switch_mod.multi_switch = multi_switch
    names.append("switch.multi_switch")
    s.installed = names
    return names


def _diverge_at_switch(c1, c2):
    """True if the two contexts first differ at two different branches of the same switch call."""
    for a, b in zip(c1, c2):
        if a == b:
            continue
        return a[0] == "switch" and b[0] == "switch" and a[1] == b[1] and a[2] != b[2]
    return False


def key_reuse(evs):
    """Pairs of executed sampler invocations that consumed the same key (not exempt)."""
    by_key = {}
    for k, c in evs:
        by_key.setdefault(k, []).append(c)
    out = []
    for k, cs in by_key.items():
        if len(cs) < 2:
            continue
        for i in range(len(cs)):
            for j in range(i + 1, len(cs)):
                if not _diverge_at_switch(cs[i], cs[j]):
                    out.append((k, cs[i], cs[j]))
    return out


def describe_ctx(c):
    parts = []
    for x in c:
        if x[0] == "addr":
            parts.append(repr(x[1]))
        elif x[0] == "switch":
            parts.append(f"branch{x[2]}")
        elif x[0] == "dist":
            parts.append(x[1].split(".")[-1])
    return "/".join(parts)
