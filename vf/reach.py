"""Reach counters: sys.monitoring PY_START counts on the code objects of anchored functions.

An anchor is "module.path:Qual.name".  beartype wraps the repo's functions; the real code
object is reached through the __wrapped__ chain.  A property whose anchored mechanism was
never entered is reported INCONCLUSIVE by the parent, never "held".
"""

from __future__ import annotations

import importlib
import sys

TOOL = 3


def resolve(anchor: str):
    modname, qual = anchor.split(":")
    obj = importlib.import_module(modname)
    for part in qual.split("."):
        obj = getattr(obj, part)
    if isinstance(obj, (staticmethod, classmethod)):
        obj = obj.__func__
    seen = 0
    codes = []
    while obj is not None and seen < 10:
        f = getattr(obj, "__func__", obj)
        c = getattr(f, "__code__", None)
        if c is not None:
            codes.append(c)
        obj = getattr(f, "__wrapped__", None)
        seen += 1
    return codes


class Monitor:
    def __init__(self, anchors):
        self.anchors = list(anchors)
        self._counts = {a: 0 for a in self.anchors}
        self._by_code = {}
        self.active = False
        self.unresolved = []

    def start(self):
        if not self.anchors:
            return
        mon = sys.monitoring
        try:
            mon.use_tool_id(TOOL, "vf.reach")
        except ValueError:
            return
        for a in self.anchors:
            try:
                codes = resolve(a)
            except Exception:
                self.unresolved.append(a)
                continue
            if not codes:
                self.unresolved.append(a)
                continue
            # the innermost code object is the repository's own function body
            c = codes[-1]
            self._by_code.setdefault(c, []).append(a)
            mon.set_local_events(TOOL, c, mon.events.PY_START)

        def on_start(code, offset):
            for a in self._by_code.get(code, ()):
                self._counts[a] += 1

        mon.register_callback(TOOL, mon.events.PY_START, on_start)
        self.active = True

    def stop(self):
        if not self.active:
            return
        mon = sys.monitoring
        for c in self._by_code:
            mon.set_local_events(TOOL, c, 0)
        mon.register_callback(TOOL, mon.events.PY_START, None)
        mon.free_tool_id(TOOL)
        self.active = False

    def counts(self):
        out = dict(self._counts)
        for a in self.unresolved:
            out[a] = 0
        return out
