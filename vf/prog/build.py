"""Builds the real GenJAX generative function of a program AST (by exec of emitted source),
and converts values between the real world (jax arrays, genjax Mask) and reference trees."""

from __future__ import annotations

import numpy as np

from vf import common
from vf.prog import ast
from vf.prog.tree import RefMask


def real_namespace():
    genjax = common.import_repo()
    import jax
    import jax.numpy as jnp
    from genjax import Mask

    def _leafsum(x, flag=None):
        x = jnp.asarray(x)
        x = x.astype(jnp.float32) if x.dtype != jnp.float32 else x
        if flag is None:
            return jnp.sum(x)
        f = jnp.asarray(flag)
        if f.ndim <= x.ndim:
            f = f.reshape(f.shape + (1,) * (x.ndim - f.ndim))
        return jnp.sum(jnp.where(f, x, 0.0))

    def S(v, _flag=None):
        if isinstance(v, Mask):
            return S(v.value, v.primal_flag() if _flag is None else jnp.logical_and(_flag, v.primal_flag()))
        if isinstance(v, (tuple, list)):
            tot = jnp.float32(0.0)
            for x in v:
                tot = tot + S(x, _flag)
            return tot
        if isinstance(v, dict):
            tot = jnp.float32(0.0)
            for k in sorted(v):
                tot = tot + S(v[k], _flag)
            return tot
        if v is None:
            return jnp.float32(0.0)
        return _leafsum(v, _flag)

    def SQ(x):
        return 2.0 * jnp.tanh(0.3 * x)

    def POS(x):
        return 0.5 + jnp.abs(x)

    def UNIT(x):
        return 0.05 + 0.9 / (1.0 + jnp.exp(-x))

    def NEG1(x):
        return -(1.0 + POS(x))

    def POS1(x):
        return 1.0 + POS(x)

    def GT(x, c):
        return x > c

    def IDX(x, n, lo, hi):
        return jnp.clip(jnp.floor((x + 2.0) * (n / 4.0)), lo, hi).astype(jnp.int32)

    def VEC(x, n, c):
        x = jnp.asarray(x)
        return x[None, ...] + c * jnp.arange(n, dtype=jnp.float32).reshape((n,) + (1,) * x.ndim)

    return {
        "genjax": genjax,
        "jax": jax,
        "jnp": jnp,
        "xp": jnp,
        "S": S,
        "SQ": SQ,
        "POS": POS,
        "UNIT": UNIT,
        "NEG1": NEG1,
        "POS1": POS1,
        "GT": GT,
        "IDX": IDX,
        "VEC": VEC,
    }


def build(node: ast.Node):
    """Returns (gen_fn, source_text)."""
    E = ast.Emitter()
    name = node.emit(E)
    ns = real_namespace()
    src = E.source()
    exec(compile(src, "<generated program>", "exec"), ns)
    gf = eval(name, ns)
    return gf, src + f"\n# root: {name}"


# ---------------------------------------------------------------- value conversion


def to_real(x):
    """Reference/numpy argument tree -> jax arrays (python bool/int/float kept when given)."""
    import jax.numpy as jnp

    if isinstance(x, tuple):
        return tuple(to_real(v) for v in x)
    if isinstance(x, list):
        return [to_real(v) for v in x]
    if isinstance(x, dict):
        return {k: to_real(v) for k, v in x.items()}
    if x is None:
        return None
    if isinstance(x, PyVal):
        return x.v
    a = np.asarray(x)
    if a.dtype == np.float64:
        return jnp.asarray(a, dtype=jnp.float32)
    if a.dtype == np.int64:
        return jnp.asarray(a, dtype=jnp.int32)
    return jnp.asarray(a)


class PyVal:
    """Marks an argument that must reach genjax as a plain Python value (bool/int/float):
    concrete flags and indices take different code paths than arrays."""

    def __init__(self, v):
        self.v = v

    def __repr__(self):
        return f"Py({self.v!r})"


def strip_py(x):
    """PyVal-marked tree -> plain numpy tree for the reference interpreter."""
    if isinstance(x, tuple):
        return tuple(strip_py(v) for v in x)
    if isinstance(x, list):
        return [strip_py(v) for v in x]
    if isinstance(x, dict):
        return {k: strip_py(v) for k, v in x.items()}
    if isinstance(x, PyVal):
        return np.asarray(x.v)
    return x


def from_real(x):
    """Real return value -> reference tree (numpy leaves, RefMask)."""
    from genjax import Mask

    if isinstance(x, Mask):
        return RefMask(from_real(x.value), np.asarray(x.primal_flag()))
    if isinstance(x, tuple):
        return tuple(from_real(v) for v in x)
    if isinstance(x, list):
        return [from_real(v) for v in x]
    if isinstance(x, dict):
        return {k: from_real(v) for k, v in x.items()}
    if x is None:
        return None
    return np.asarray(x)
