"""Reference-side value trees (no genjax import): numpy scalars/arrays, tuples, lists, dicts,
None and RefMask.  Used by the reference interpreter and to normalise real results."""

from __future__ import annotations

import numpy as np


class RefMask:
    """A masked value: `flag` (bool or bool array); `value` meaningful only where flag."""

    __slots__ = ("value", "flag")

    def __init__(self, value, flag):
        self.value = value
        self.flag = flag

    def __repr__(self):
        return f"RefMask({self.value!r}, {self.flag!r})"


class _Empty:
    """Result of stacking zero elements: matches any tree whose leaves have a leading axis 0."""

    def __repr__(self):
        return "EMPTY"


EMPTY = _Empty()


def is_leaf(x):
    return not isinstance(x, (tuple, list, dict, RefMask)) and x is not None


def tmap(f, t):
    if t is EMPTY:
        return EMPTY
    if isinstance(t, tuple):
        return tuple(tmap(f, x) for x in t)
    if isinstance(t, list):
        return [tmap(f, x) for x in t]
    if isinstance(t, dict):
        return {k: tmap(f, v) for k, v in t.items()}
    if isinstance(t, RefMask):
        return RefMask(None if t.value is None else tmap(f, t.value), f(t.flag))
    if t is None:
        return None
    return f(t)


def tstack(ts):
    """Stack a non-empty list of equally structured trees along a new leading axis."""
    t0 = ts[0]
    if t0 is EMPTY:
        return EMPTY
    if isinstance(t0, tuple):
        return tuple(tstack([t[i] for t in ts]) for i in range(len(t0)))
    if isinstance(t0, list):
        return [tstack([t[i] for t in ts]) for i in range(len(t0))]
    if isinstance(t0, dict):
        return {k: tstack([t[k] for t in ts]) for k in t0}
    if isinstance(t0, RefMask):
        flags = np.stack([np.asarray(t.flag) for t in ts])
        # values may be None where the flag is False: fill with zeros shaped like a valid one
        proto = next((t.value for t in ts if t.value is not None), None)
        if proto is None:
            return RefMask(None, flags)
        vals = [t.value if t.value is not None else tmap(lambda x: np.zeros_like(np.asarray(x)), proto) for t in ts]
        return RefMask(tstack(vals), flags)
    if t0 is None:
        return None
    return np.stack([np.asarray(t) for t in ts])


def tindex(t, i):
    return tmap(lambda x: np.asarray(x)[i], t)


def tsum(t):
    """The scalar S(t) used by generated programs: sum of all leaves, masked-off parts as 0."""
    if isinstance(t, (tuple, list)):
        return float(sum(tsum(x) for x in t)) if t else 0.0
    if isinstance(t, dict):
        return float(sum(tsum(v) for v in t.values())) if t else 0.0
    if t is EMPTY:
        return 0.0
    if isinstance(t, RefMask):
        if t.value is None:
            return 0.0
        flag = np.asarray(t.flag)

        def leaf(x):
            x = np.asarray(x, dtype=np.float64)
            f = flag.reshape(flag.shape + (1,) * (x.ndim - flag.ndim)) if flag.ndim <= x.ndim else flag
            return float(np.sum(np.where(f, x, 0.0)))

        return float(sum(leaf(x) for x in tleaves(t.value)))
    if t is None:
        return 0.0
    return float(np.sum(np.asarray(t, dtype=np.float64)))


def tleaves(t):
    out = []
    if isinstance(t, (tuple, list)):
        for x in t:
            out.extend(tleaves(x))
    elif isinstance(t, dict):
        for k in sorted(t):
            out.extend(tleaves(t[k]))
    elif isinstance(t, RefMask):
        out.append(t)
    elif t is None:
        pass
    else:
        out.append(t)
    return out


def tdescribe(t):
    if t is EMPTY:
        return "EMPTY"
    if isinstance(t, tuple):
        return "(" + ",".join(tdescribe(x) for x in t) + ")"
    if isinstance(t, list):
        return "[" + ",".join(tdescribe(x) for x in t) + "]"
    if isinstance(t, dict):
        return "{" + ",".join(f"{k}:{tdescribe(v)}" for k, v in sorted(t.items())) + "}"
    if isinstance(t, RefMask):
        return f"Mask<{tdescribe(t.value)}|{np.asarray(t.flag).tolist()}>"
    if t is None:
        return "None"
    a = np.asarray(t)
    if a.size <= 8:
        return str(np.round(a.astype(np.float64), 5).tolist())
    return f"arr{a.shape}"


def tcompare(real, ref, close, path="ret"):
    """Compare a normalised real tree with the reference tree.  Returns None if equal, else a
    short description of the first difference.  Masks: flags equal, values equal where valid."""
    if ref is EMPTY:
        for lf in tleaves(real):
            if isinstance(lf, RefMask):
                lf = lf.flag if lf.value is None else (tleaves(lf.value) or [lf.flag])[0]
            a = np.asarray(lf)
            if a.size != 0:
                return f"{path}: expected an empty (zero-length) result, got shape {a.shape}"
        return None
    if isinstance(ref, RefMask):
        if not isinstance(real, RefMask):
            # a concretely-true mask may legitimately come back unwrapped only if the
            # reference flag is all True
            if np.all(np.asarray(ref.flag)):
                return tcompare(real, ref.value, close, path + ".value")
            return f"{path}: expected a mask, got {type(real).__name__}"
        rf = np.asarray(real.flag).astype(bool)
        ef = np.asarray(ref.flag).astype(bool)
        try:
            rf_b, ef_b = np.broadcast_arrays(rf, ef)
        except ValueError:
            return f"{path}.flag: shapes {rf.shape} vs {ef.shape}"
        if not np.array_equal(rf_b, ef_b):
            return f"{path}.flag: {rf.tolist()} vs {ef.tolist()}"
        if ref.value is None or not np.any(ef):
            return None
        return _cmp_masked(real.value, ref.value, ef, close, path + ".value")
    if isinstance(real, RefMask):
        if np.all(np.asarray(real.flag)):
            return tcompare(real.value, ref, close, path + ".value")
        return f"{path}: unexpected invalid mask"
    if isinstance(ref, (tuple, list)):
        if not isinstance(real, (tuple, list)) or len(real) != len(ref):
            return f"{path}: structure {type(real).__name__}/{len(real) if hasattr(real,'__len__') else '?'} vs {len(ref)}"
        for i, (a, b) in enumerate(zip(real, ref)):
            d = tcompare(a, b, close, f"{path}[{i}]")
            if d:
                return d
        return None
    if isinstance(ref, dict):
        if not isinstance(real, dict) or set(real) != set(ref):
            return f"{path}: dict keys differ"
        for k in ref:
            d = tcompare(real[k], ref[k], close, f"{path}[{k!r}]")
            if d:
                return d
        return None
    if ref is None:
        return None if real is None else f"{path}: expected None"
    if real is None:
        return f"{path}: got None"
    a = np.asarray(real)
    b = np.asarray(ref)
    if a.shape != b.shape:
        return f"{path}: shape {a.shape} vs {b.shape}"
    if not close(a.astype(np.float64), b.astype(np.float64)):
        return f"{path}: {tdescribe(a)} vs {tdescribe(b)}"
    return None


def _cmp_masked(real, ref, flag, close, path):
    if isinstance(ref, (tuple, list)):
        for i, (a, b) in enumerate(zip(real, ref)):
            d = _cmp_masked(a, b, flag, close, f"{path}[{i}]")
            if d:
                return d
        return None
    if isinstance(ref, dict):
        for k in ref:
            d = _cmp_masked(real[k], ref[k], flag, close, f"{path}[{k!r}]")
            if d:
                return d
        return None
    if ref is None:
        return None
    if isinstance(ref, RefMask) or isinstance(real, RefMask):
        return tcompare(real, ref, close, path)
    a = np.asarray(real, dtype=np.float64)
    b = np.asarray(ref, dtype=np.float64)
    if a.shape != b.shape:
        return f"{path}: shape {a.shape} vs {b.shape}"
    f = flag.reshape(flag.shape + (1,) * (a.ndim - flag.ndim)) if flag.ndim <= a.ndim else flag
    f = np.broadcast_to(f, a.shape)
    if not close(a[f], b[f]):
        return f"{path}: {tdescribe(a[f])} vs {tdescribe(b[f])} (valid part)"
    return None
