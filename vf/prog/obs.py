"""Observation layer between real GenJAX objects and the reference world.

* extract(): trace / choice map  ->  {path: (value, valid)} using only public lookups
  (static-path lookups `chm[static components]`, whose leaves carry the index levels as
  leading array axes).
* constraints and selections built in the documented forms.
"""

from __future__ import annotations

import numpy as np

from vf.prog import ast


class StructuralMismatch(Exception):
    pass


def lookup_static(chm, static_path):
    """Returns (present, value_array, flag_array_or_None) for a static-path lookup."""
    from genjax import Mask

    try:
        if len(static_path) == 0:
            v = chm.get_value()
            if v is None:
                return False, None, None
        else:
            sub = chm
            for c in static_path:
                sub = sub.get_submap(c)
            if sub.static_is_empty():
                return False, None, None
            v = sub.get_value()
            if v is None:
                return False, None, None
    except Exception as e:  # lookup itself failed
        raise StructuralMismatch(f"lookup {static_path} raised {type(e).__name__}: {e}")
    if isinstance(v, Mask):
        return True, np.asarray(v.value), np.asarray(v.primal_flag())
    return True, np.asarray(v), None


def extract(node: ast.Node, chm):
    """{path: (value, valid)} for every potential choice site of `node` found in `chm`.
    Sites sharing a static path (switch branches) are read once."""
    return extract_sites(node.sites(), chm)


def extract_sites(sites, chm):
    out = {}
    seen = {}
    for site in sites:
        sp = site.static_path
        dims = site.idx_dims
        key = (sp, dims)
        if key in seen:
            continue
        seen[key] = True
        present, val, flag = lookup_static(chm, sp)
        if not present:
            continue
        if dims and int(np.prod(dims)) == 0:
            continue
        nd = len(dims)
        if val.shape[:nd] != tuple(dims):
            raise StructuralMismatch(
                f"choices at {sp}: leading shape {val.shape[:nd]} but index levels {dims}"
            )
        if flag is None:
            flag_b = np.ones(dims, dtype=bool)
        else:
            f = np.asarray(flag).astype(bool)
            if f.ndim > nd:
                # a flag finer than the index levels (elementwise masks on vector values): valid iff all
                f = f.reshape(f.shape[:nd] + (-1,)).all(axis=-1)
            flag_b = np.broadcast_to(f.reshape(f.shape + (1,) * (nd - f.ndim)), dims)
        for path, idx in site.paths():
            out[path] = (val[idx] if nd else val, bool(flag_b[idx]) if nd else bool(flag_b))
    return out


def valid_assignment(ex):
    return {p: v for p, (v, ok) in ex.items() if ok}


# ----------------------------------------------------------------------------- constraints


def _flagval(f):
    return getattr(f, "v", f)


def _real_value(v):
    import jax.numpy as jnp

    a = np.asarray(v)
    if a.dtype == np.float64:
        return jnp.asarray(a, dtype=jnp.float32)
    if a.dtype == np.int64:
        return jnp.asarray(a, dtype=jnp.int32)
    return jnp.asarray(a)


def build_constraint(values: dict, form="scalar", masks=None):
    """ChoiceMap from {path: value}.  Paths interleave static components and int indices in
    program order (index levels come where the vector combinator sits): C["a", 2, "x"].

    form 'scalar': one entry per path, merged with |.
    form 'array' : entries that differ only in their *last* index level are grouped into
                   C[..., jnp.array(idxs), ...].set(jnp.array(values)).
    masks: optional {path: flag-value} -> the value is wrapped in genjax.Mask(value, flag).
    """
    from genjax import ChoiceMap, Mask
    from genjax import ChoiceMapBuilder as C
    import jax.numpy as jnp

    masks = masks or {}
    chm = ChoiceMap.empty()
    items = list(values.items())
    if form == "full":
        # sites under exactly one index level whose every index is present are written as one
        # array-valued entry at the static path (optionally one vector-flag Mask): C["a","x"]
        groups = {}
        rest = []
        groups2 = {}
        for p, v in items:
            ipos = [i for i, c in enumerate(p) if not isinstance(c, str)]
            if len(ipos) == 2:
                # two nested vector combinators: one [N, M, ...] entry (and one [N, M] flag array)
                key = tuple(c for c in p if isinstance(c, str))
                groups2.setdefault(key, {})[(p[ipos[0]], p[ipos[1]])] = (p, v)
                continue
            if len(ipos) != 1:
                rest.append((p, v))
                continue
            key = (p[: ipos[0]], p[ipos[0] + 1 :])
            groups.setdefault(key, {})[p[ipos[0]]] = (p, v)
        for spath, d in groups2.items():
            n = max(i for i, _ in d) + 1
            m = max(j for _, j in d) + 1
            shapes = {np.asarray(v).shape for _, v in d.values()}
            if len(d) != n * m or len(shapes) != 1 or any(q[: len(spath)] == spath and q != spath or spath[: len(q)] == q and q != spath for q in groups2 if q != spath):
                rest.extend(d.values())
                continue
            vals = _real_value(np.stack([np.stack([np.asarray(d[(i, j)][1]) for j in range(m)]) for i in range(n)]))
            if any(d[k][0] in masks for k in d):
                flags = jnp.asarray([[bool(np.asarray(_flagval(masks.get(d[(i, j)][0], True)))) for j in range(m)] for i in range(n)])
                vals = Mask(vals, flags)
            b = C
            for c in spath:
                b = b[c]
            chm = chm | (b.set(vals) if spath else ChoiceMap.choice(vals))
        for (pre, post), d in groups.items():
            n = max(d) + 1
            shapes = {np.asarray(v).shape for _, v in d.values()}
            if sorted(d) != list(range(n)) or len(shapes) != 1 or n < 1:
                rest.extend(d.values())
                continue
            vals = _real_value(np.stack([np.asarray(d[i][1]) for i in range(n)]))
            if any(d[i][0] in masks for i in range(n)):
                flags = jnp.asarray([bool(np.asarray(_flagval(masks.get(d[i][0], True)))) for i in range(n)])
                vals = Mask(vals, flags)
            b = C
            for c in pre + post:
                b = b[c]
            chm = chm | (b.set(vals) if (pre + post) else ChoiceMap.choice(vals))
        items = rest
    if form == "array":
        groups = {}
        rest = []
        for p, v in items:
            ipos = [i for i, c in enumerate(p) if not isinstance(c, str)]
            if not ipos or p in masks:
                rest.append((p, v))
                continue
            last = ipos[-1]
            key = (p[:last], p[last + 1 :], np.asarray(v).shape)
            groups.setdefault(key, []).append((p[last], v))
        for (pre, post, _), lst in groups.items():
            if len(lst) == 1:
                rest.append((pre + (lst[0][0],) + post, lst[0][1]))
                continue
            lst.sort(key=lambda t: t[0])
            # index arrays need not be sorted: permute them (deterministically per content)
            import zlib

            prm = np.random.default_rng(zlib.crc32(repr((pre, post, [i for i, _ in lst])).encode()))
            if prm.random() < 0.75:
                lst = [lst[j] for j in prm.permutation(len(lst))]
            idxs = jnp.asarray([i for i, _ in lst], dtype=jnp.int32)
            vals = _real_value(np.stack([np.asarray(v) for _, v in lst]))
            b = C
            for c in pre + (idxs,) + post:
                b = b[c]
            chm = chm | b.set(vals)
        items = rest
    for p, v in items:
        rv = _real_value(v)
        if p in masks:
            f = masks[p]
            rv = Mask(rv, f.v if hasattr(f, "v") else jnp.asarray(bool(f)))
        if len(p) == 0:
            chm = chm | ChoiceMap.choice(rv)
            continue
        b = C
        for c in p:
            b = b[int(c) if not isinstance(c, str) else c]
        chm = chm | b.set(rv)
    return chm


# ----------------------------------------------------------------------------- selections
# A reference selection is a predicate on *static* paths, built from a small term language:
#   ("all",) ("none",) ("at", static_prefix) ("or", a, b) ("and", a, b) ("not", a)
# `at` prefixes may contain "*" wildcards (the library's `...`).


def sel_contains(term, spath):
    k = term[0]
    if k == "all":
        return True
    if k == "none":
        return False
    if k == "at":
        pre = term[1]
        if len(spath) < len(pre):
            return False
        return all(a == "*" or a == b for a, b in zip(pre, spath))
    if k == "or":
        return sel_contains(term[1], spath) or sel_contains(term[2], spath)
    if k == "and":
        return sel_contains(term[1], spath) and sel_contains(term[2], spath)
    if k == "not":
        return not sel_contains(term[1], spath)
    raise ValueError(term)


def build_selection(term):
    from genjax import Selection as S

    k = term[0]
    if k == "all":
        return S.all()
    if k == "none":
        return S.none()
    if k == "at":
        pre = tuple(... if c == "*" else c for c in term[1])
        if len(pre) == 0:
            return S.all()
        return S.at[pre] if len(pre) > 1 else S.at[pre[0]]
    if k == "or":
        return build_selection(term[1]) | build_selection(term[2])
    if k == "and":
        return build_selection(term[1]) & build_selection(term[2])
    if k == "not":
        return ~build_selection(term[1])
    raise ValueError(term)


def static_of(path):
    return tuple(c for c in path if isinstance(c, str))


def gen_selection(rng, node, depth=1):
    """Random selection term over the program's static paths."""
    spaths = sorted({s.static_path for s in node.sites()})
    if not spaths:
        return ("all",) if rng.random() < 0.5 else ("none",)

    def atom():
        r = rng.random()
        if r < 0.08:
            return ("all",)
        if r < 0.16:
            return ("none",)
        sp = spaths[int(rng.integers(len(spaths)))]
        if len(sp) == 0:
            return ("all",)
        k = int(rng.integers(1, len(sp) + 1))
        pre = list(sp[:k])
        if len(pre) >= 2 and rng.random() < 0.25:
            pre[int(rng.integers(len(pre) - 1))] = "*"
        return ("at", tuple(pre))

    def wild_and():
        """Intersection of a wildcard path with a concrete path through the same site (non-empty
        by construction), in either operand order, optionally complemented."""
        deep = [sp for sp in spaths if len(sp) >= 2]
        if not deep:
            return atom()
        sp = deep[int(rng.integers(len(deep)))]
        j = int(rng.integers(len(sp) - 1))
        wild = list(sp)
        wild[j] = "*"
        k = int(rng.integers(j + 1, len(sp) + 1))
        a, b = ("at", tuple(wild)), ("at", tuple(sp[:k]))
        t = ("and", a, b) if rng.random() < 0.5 else ("and", b, a)
        return ("not", t) if rng.random() < 0.25 else t

    def term(d):
        if d > 0 and rng.random() < 0.1:
            return wild_and()
        if d <= 0 or rng.random() < 0.45:
            return atom()
        r = rng.random()
        if r < 0.4:
            return ("or", term(d - 1), term(d - 1))
        if r < 0.6:
            return ("and", term(d - 1), term(d - 1))
        return ("not", term(d - 1))

    return term(depth)
