"""Seeded random generation of program ASTs and of their arguments (numpy Generator only)."""

from __future__ import annotations

import numpy as np

from vf.prog import ast
from vf.prog.ast import (
    DISCRETE_DISTS,
    FLOAT_SCALAR_DISTS,
    VECTOR_DISTS,
    Accumulate,
    Dimap,
    Dist,
    Iterate,
    IterateFinal,
    Mask,
    MaskedIterate,
    MaskedIterateFinal,
    Mix,
    OrElse,
    Reduce,
    Repeat,
    Scan,
    Static,
    Stmt,
    Switch,
    Vmap,
    spec,
)
from vf.prog.build import PyVal

ALL_KINDS = [
    "Dist",
    "Static",
    "Vmap",
    "Repeat",
    "Scan",
    "Accumulate",
    "Reduce",
    "Iterate",
    "IterateFinal",
    "MaskedIterate",
    "MaskedIterateFinal",
    "Switch",
    "OrElse",
    "Mix",
    "Mask",
    "Dimap",
]


class Cfg:
    def __init__(
        self,
        depth=2,
        kinds=None,
        root=None,
        dists=None,
        sizes=(1, 2, 3),
        max_stmts=3,
        allow_zero_len=False,
        hostile_idx=False,
        empty_branch=0.12,
        tuple_param=0.15,
        literal_ret=0.0,
        tuple_addr=0.25,
        kw=0.3,
        vector_dists=True,
        weights=None,
        mixed_lead=False,
    ):
        self.depth = depth
        self.kinds = list(kinds) if kinds is not None else list(ALL_KINDS)
        self.root = root
        self.dists = list(dists) if dists is not None else FLOAT_SCALAR_DISTS + DISCRETE_DISTS
        self.sizes = tuple(sizes)
        self.max_stmts = max_stmts
        self.allow_zero_len = allow_zero_len
        self.hostile_idx = hostile_idx
        self.empty_branch = empty_branch
        self.tuple_param = tuple_param
        self.literal_ret = literal_ret
        self.tuple_addr = tuple_addr
        self.kw = kw
        self.vector_dists = vector_dists
        self.weights = weights or {}
        self.mixed_lead = mixed_lead


def _c(rng, lo=0.3, hi=1.2):
    """A readable non-degenerate constant."""
    v = float(np.round(rng.uniform(lo, hi), 2))
    return -v if rng.random() < 0.3 else v


def _seed_expr(rng, env):
    """Scalar float expression over the environment (list of variable names)."""
    if not env:
        return f"({_c(rng)} + 0.0)"
    k = min(len(env), 1 + int(rng.random() < 0.5))
    names = list(rng.choice(env, size=k, replace=False))
    terms = [f"{_c(rng)} * S({n})" for n in names]
    return f"SQ({_c(rng, 0.0, 0.8)} + " + " + ".join(terms) + ")"


def gen_expr(rng, sp, env, shapes=None):
    """Source of an expression of type `sp` over `env` (names); `shapes`: name -> spec."""
    if sp[0] == "none":
        return "None"
    if sp[0] == "t":
        inner = [gen_expr(rng, s, env, shapes) for s in sp[1]]
        return "(" + "".join(e + ", " for e in inner) + ")"
    _, shape, kind = sp
    e = None
    if shapes and kind == "f" and shape and rng.random() < 0.6:
        cands = [n for n in env if shapes.get(n) == ("a", tuple(shape), "f")]
        if cands:
            n = cands[int(rng.integers(len(cands)))]
            e = n if rng.random() < 0.5 else f"({n} * {_c(rng)})"
    if e is None:
        e = _seed_expr(rng, env)
        for n in reversed(shape):
            e = f"VEC({e}, {n}, {_c(rng, 0.2, 0.6)})"
    if kind == "f":
        return e
    if kind == "p":
        return f"POS({e})"
    if kind == "u":
        return f"UNIT({e})"
    if kind == "n1":
        return f"NEG1({e})"
    if kind == "p1":
        return f"POS1({e})"
    if kind == "b":
        return f"GT({e}, {_c(rng, 0.0, 0.5)})"
    if kind.startswith("i:"):
        hostile = kind.endswith("!")
        k = int(kind[2:].rstrip("!"))
        if hostile:
            return f"IDX({e}, {k + 2}, -1, {k})"
        return f"IDX({e}, {k}, 0, {k - 1})"
    raise ValueError(sp)


# ----------------------------------------------------------------------------- programs

_ADDR = ["a", "b", "c", "d", "e", "f", "g", "h"]
_TADDR = [("p", "x"), ("p", "y"), ("q", "x"), ("q", "r", "z"), ("r", "w"), ("s", "t", "u"), ("s", "t", "v", "k"), ("q", "r", "y")]


class Gen:
    def __init__(self, rng, cfg: Cfg):
        self.rng = rng
        self.cfg = cfg
        self.addr_salt = 0

    def pick_dist(self, scalar_float=False, allow_vector=True):
        c = self.cfg
        pool = [d for d in c.dists if (not scalar_float or d in FLOAT_SCALAR_DISTS)]
        if allow_vector and c.vector_dists and not scalar_float and self.rng.random() < 0.12:
            pool = VECTOR_DISTS
        if not pool:
            pool = ["normal"]
        name = pool[int(self.rng.integers(len(pool)))]
        return Dist(name, veclen=int(self.rng.choice([2, 3])), use_kw=self.rng.random() < c.kw)

    def node(self, depth, scalar_ret=False, need_args=False, exclude=()):
        """A random node.  scalar_ret: return value must be one scalar (switch branches)."""
        c = self.cfg
        rng = self.rng
        # MaskedIterate only ever appears as the root: the value it records after a masked-off
        # step is undocumented, so a reference for programs *consuming* it does not exist
        kinds = [k for k in c.kinds if k not in exclude and k != "MaskedIterate"]
        if depth <= 0:
            kinds = [k for k in kinds if k == "Dist"] or ["Dist"]
        if scalar_ret:
            kinds = [k for k in kinds if k in ("Dist", "Static", "Switch", "OrElse", "Mix", "Dimap", "Reduce", "IterateFinal", "MaskedIterateFinal")]
        w = np.array([c.weights.get(k, 1.0 if k != "Dist" else 1.5) for k in kinds], dtype=float)
        k = kinds[int(rng.choice(len(kinds), p=w / w.sum()))]
        return self.make(k, depth, scalar_ret=scalar_ret, need_args=need_args)

    def make(self, k, depth, scalar_ret=False, need_args=False):
        rng = self.rng
        c = self.cfg
        d1 = depth - 1
        if k == "Dist":
            return self.pick_dist(scalar_float=scalar_ret)
        if k == "Static":
            n = int(rng.integers(1 if need_args else 0, 3))
            return self.static(d1, nparams=n, ret="scalar" if (scalar_ret or rng.random() > c.literal_ret) else "literal")
        if k == "Vmap":
            if rng.random() < 0.3:
                # a static inner function with a vector-valued parameter: lets the map run
                # along a non-leading axis of a matrix argument (in_axes=1)
                m = int(rng.choice([2, 3]))
                npar = int(rng.integers(1, 3))
                specs = [spec((m,), "f")] + [spec((), "f")] * (npar - 1)
                inner = self.static(d1, nparams=npar, arg_specs=specs)
            else:
                inner = self.node(d1, need_args=True, exclude=("Repeat",))
            if not inner.arg_specs or all(s[0] == "none" for s in inner.arg_specs):
                inner = self.static(d1 - 1, nparams=1)
            n = self.size(zero_ok=True)
            axes = []
            for s in inner.arg_specs:
                if s[0] == "none":
                    axes.append(None)
                else:
                    if s[0] == "a" and len(s[1]) >= 1 and rng.random() < 0.3:
                        axes.append(1)  # map along a non-leading axis of an array argument
                    else:
                        axes.append(0 if rng.random() < 0.7 else None)
            mappable = [i for i, s in enumerate(inner.arg_specs) if s[0] != "none"]
            if all(a is None for a in axes):
                axes[mappable[int(rng.integers(len(mappable)))]] = 0
            return Vmap(inner, axes, n, method_form=rng.random() < 0.5)
        if k == "Repeat":
            inner = self.node(d1, exclude=("Repeat", "Vmap"))
            return Repeat(inner, self.size(zero_ok=True))
        if k == "Scan":
            xs_none = rng.random() < 0.3
            kern = self.static(d1, nparams=2, ret="carry_y", names=["c", "x"], none_second=xs_none)
            return Scan(kern, self.size(), xs_none=xs_none, give_length=rng.random() < 0.5)
        if k in ("Accumulate", "Reduce"):
            f = self.static(d1, nparams=2, ret="carry", names=["c", "x"])
            return (Accumulate if k == "Accumulate" else Reduce)(f, self.size())
        if k in ("Iterate", "IterateFinal", "MaskedIterate", "MaskedIterateFinal"):
            f = self.static(d1, nparams=1, ret="carry", names=["c"])
            cls = {"Iterate": Iterate, "IterateFinal": IterateFinal, "MaskedIterate": MaskedIterate, "MaskedIterateFinal": MaskedIterateFinal}[k]
            return cls(f, self.size())
        if k == "Switch":
            nb = int(rng.choice([2, 2, 3]))
            bs = self.branches(nb, d1)
            return Switch(bs, method_form=rng.random() < 0.5, hostile_idx=c.hostile_idx)
        if k == "OrElse":
            a, b = self.branches(2, d1)
            return OrElse(a, b)
        if k == "Mix":
            nb = int(rng.choice([2, 3]))
            return Mix(self.branches(nb, d1))
        if k == "Mask":
            inner = self.node(d1, exclude=("Mask", "MaskedIterate", "MaskedIterateFinal"))
            return Mask(inner)
        if k == "Dimap":
            inner = self.node(d1, scalar_ret=scalar_ret)
            return self.dimap(inner, scalar_ret)
        raise ValueError(k)

    def branches(self, nb, d1):
        """Branches whose shared static addresses hold equally shaped values (a lookup at an
        address that two branches fill with different shapes raises in the library's
        mask-combining code: outside the workload, noted in DESIGN.md)."""
        for _whole in range(4):
            out = []
            ok = True
            # sometimes one branch (not the last) is a deterministic function: no random choices
            empty_at = int(self.rng.integers(0, max(1, nb - 1))) if self.rng.random() < self.cfg.empty_branch else -1
            for bi in range(nb):
                if bi == empty_at:
                    out.append(self.static(0, 1, force_empty=True))
                    continue
                for attempt in range(8):
                    b = self.node(d1, scalar_ret=True, exclude=("Switch", "OrElse", "Mix"))
                    if _compatible(out + [b], self.cfg.mixed_lead):
                        out.append(b)
                        break
                else:
                    ok = False
                    break
            if ok:
                return out
        # bare scalar distributions are always mutually compatible
        return [self.pick_dist(scalar_float=True) for _ in range(nb)]

    def size(self, zero_ok=False):
        c = self.cfg
        if zero_ok and c.allow_zero_len and self.rng.random() < 0.08:
            return 0
        return int(self.rng.choice(c.sizes))

    def dimap(self, inner, scalar_ret=False):
        rng = self.rng
        form = str(rng.choice(["dimap", "dimap", "map", "contramap"]))
        if form == "map":
            params = [f"m{i}" for i in range(len(inner.arg_specs))]
            specs = list(inner.arg_specs)
            pre = "(" + "".join(p + ", " for p in params) + ")"
            post = f"S(RET) * {_c(rng)} + {_c(rng)}"
            return Dimap(inner, params, specs, pre, post, form="map", ret_scalar=True)
        nparams = int(rng.integers(1, 3))
        params = [f"m{i}" for i in range(nparams)]
        specs = [spec((), "f")] * nparams
        pre = gen_expr(rng, ("t", list(inner.arg_specs)), params)
        if form == "contramap":
            return Dimap(inner, params, specs, pre, "RET", form="contramap", ret_scalar=inner.ret_scalar)
        which = int(rng.integers(3))
        if which == 0:
            post = f"S(RET) * {_c(rng)} + S(ARGS[0])"
        elif which == 1:
            post = f"(S(RET) + {_c(rng)} * S(XF), S(ARGS))" if not scalar_ret else f"S(RET) + {_c(rng)} * S(XF)"
        else:
            post = f"SQ(S(RET)) + {_c(rng)} * S(ARGS)"
        return Dimap(inner, params, specs, pre, post, form="dimap", ret_scalar=not post.startswith("("))

    def static(self, depth, nparams, ret="scalar", names=None, none_second=False, arg_specs=None, force_empty=False):
        rng = self.rng
        c = self.cfg
        params = names or [f"a{i}" for i in range(nparams)]
        specs = list(arg_specs) if arg_specs is not None else [spec((), "f")] * len(params)
        if arg_specs is None and names is None and ret == "scalar" and params and rng.random() < c.tuple_param:
            # one parameter is a structured value (a pair): callers pass a tuple, whose leaves
            # carry their own change tags
            specs[int(rng.integers(len(specs)))] = ("t", [spec((), "f"), spec((), "f")])
        env = list(params)
        if none_second:
            env = [params[0]]
            specs = [specs[0], ("none",)]
        shapes = {p: s for p, s in zip(params, specs)}
        nst = int(rng.integers(1, c.max_stmts + 1))
        if (depth <= 0 and rng.random() < 0.05) or force_empty:
            nst = 0
        used = set()
        stmts = []
        # one address style per function: a trace's subtrace dict with mixed str/tuple keys
        # cannot be sorted by JAX's pytree registry under vmap/scan (library limitation)
        tuple_style = rng.random() < c.tuple_addr
        for i in range(nst):
            callee = self.node(depth)
            argexprs = [gen_expr(rng, s, env, shapes) for s in callee.arg_specs]
            addr = self.fresh_addr(used, tuple_style)
            var = f"v{i}"
            stmts.append(Stmt(var, callee, argexprs, addr))
            env.append(var)
        body_env = env if env else []
        e1 = _seed_expr(rng, body_env) if body_env else f"({_c(rng)} + 0.0)"
        if ret == "scalar":
            rs, scalar = e1, True
        elif ret == "literal":
            form = int(rng.integers(3))
            if form == 0:
                rs = f"({e1}, 1.0)"
            elif form == 1:
                rs = f"({e1}, {params[0] if params else '2.5'})"
            else:
                rs = "{'r': " + e1 + ", 'k': 3}"
            scalar = False
        elif ret == "carry_y":
            e2 = _seed_expr(rng, body_env)
            rs = f"({e1}, {e2})" if rng.random() < 0.8 else f"({e1}, None)"
            scalar = False
        elif ret == "carry":
            rs, scalar = e1, True
        else:
            raise ValueError(ret)
        return Static(params, stmts, rs, ret_scalar=scalar, arg_specs=specs)

    def fresh_addr(self, used, tuple_style=False):
        rng = self.rng
        for _ in range(50):
            if tuple_style:
                a = _TADDR[int(rng.integers(len(_TADDR)))]
                key = a
                clash = any(isinstance(u, tuple) and (u[: len(a)] == a or a[: len(u)] == u) for u in used)
            else:
                a = _ADDR[int(rng.integers(len(_ADDR)))]
                key = a
                clash = a in used
            if not clash:
                used.add(key)
                return a
        raise RuntimeError("address pool exhausted")


def _compatible(branches, allow_mixed_lead=False):
    """Addresses shared by two branches must hold equally typed, un-indexed values, and no
    branch may own a value at an address beneath which another branch owns sub-addresses.
    (Outside these bounds the library's choice-map merging raises: mask flags of different
    shapes cannot be combined, a Choice cannot be indexed or merged with a sub-map.)"""
    seen = {}
    owner = {}
    for bi, b in enumerate(branches):
        for site in b.sites():
            key = site.static_path
            sig = (site.idx_dims, site.dist.vshape, site.dist.d.vkind)
            if key in seen and owner[key] != bi:
                if seen[key] != sig or site.idx_dims != ():
                    return False
            seen.setdefault(key, sig)
            owner.setdefault(key, bi)
    paths = list(seen)
    for a in paths:
        for b in paths:
            if a != b and b[: len(a)] == a:
                return False
    # every branch receives the whole constraint: a vector-combinator branch indexes all of
    # its leaves (`constraint(idx)`), which raises on a sibling branch's scalar leaves.  So
    # either all branches start with an index level or none does.
    lead = {_leading_index(b) for b in branches}
    return len(lead) <= 1 or allow_mixed_lead


def mixed_lead(node):
    """A switch-like root whose branches mix vector-combinator and static/leaf branches."""
    return len({_leading_index(b) for b in node.children}) > 1


def _leading_index(node):
    """Does the node index its constraint first (vector combinator, possibly wrapped)?"""
    if isinstance(node, (Vmap, Repeat, Scan, Accumulate, Iterate, MaskedIterateFinal)):
        return True
    if isinstance(node, (Dimap, Mask)):
        return _leading_index(node.children[0])
    return False


def gen_program(rng, cfg: Cfg):
    g = Gen(rng, cfg)
    if cfg.root:
        root = cfg.root if isinstance(cfg.root, str) else str(rng.choice(cfg.root))
        return g.make(root, cfg.depth, need_args=False)
    return g.node(cfg.depth, exclude=("Dist",) if cfg.depth > 0 else ())


# ----------------------------------------------------------------------------- arguments


def gen_value(rng, sp, concrete_flags=0.3):
    """A reference-side argument value for spec `sp` (PyVal marks python-level concretes)."""
    if sp[0] == "none":
        return None
    if sp[0] == "t":
        return tuple(gen_value(rng, s, concrete_flags) for s in sp[1])
    _, shape, kind = sp
    shape = tuple(shape)
    z = np.round(rng.normal(0.0, 1.0, size=shape), 3)
    if kind == "f":
        v = z
    elif kind == "p":
        v = 0.5 + np.abs(z)
    elif kind == "u":
        v = np.round(rng.uniform(0.1, 0.9, size=shape), 3)
    elif kind == "n1":
        v = -(1.5 + np.abs(z))
    elif kind == "p1":
        v = 1.5 + np.abs(z)
    elif kind == "b":
        v = rng.random(size=shape) < 0.6
        if shape == () and rng.random() < concrete_flags:
            return PyVal(bool(v))
        return np.asarray(v)
    elif kind.startswith("i:"):
        hostile = kind.endswith("!")
        k = int(kind[2:].rstrip("!"))
        lo, hi = (-2, k + 2) if hostile and rng.random() < 0.5 else (0, k)
        v = rng.integers(lo, hi, size=shape)
        if shape == () and rng.random() < concrete_flags:
            return PyVal(int(v))
        return np.asarray(v, dtype=np.int32)
    else:
        raise ValueError(sp)
    if shape == ():
        return np.float64(v)
    return np.asarray(v, dtype=np.float64)


def gen_args(rng, node, concrete_flags=0.3):
    return tuple(gen_value(rng, s, concrete_flags) for s in node.arg_specs)


def perturb_args(rng, node, args, p=0.6):
    """New argument values of the same shapes/kinds; each leaf-spec redrawn with prob p.
    Index and flag arguments keep their representation (PyVal stays PyVal)."""
    out = []
    for i, (s, a) in enumerate(zip(node.arg_specs, args)):
        out.append(_perturb(rng, s, a, p, root_flag=(i == 0)))
    return tuple(out)


def _perturb(rng, sp, a, p, root_flag=False):
    if sp[0] == "none":
        return None
    if sp[0] == "t":
        return tuple(_perturb(rng, s, x, p) for s, x in zip(sp[1], a))
    if isinstance(a, PyVal) and not root_flag:
        # a Python flag / index of a *nested* call fixes the static structure of the inner trace;
        # changing it under an enclosing combinator's edit is a change of trace type, not an update
        return a
    if rng.random() >= p:
        return a
    new = gen_value(rng, sp, concrete_flags=0.0)
    if isinstance(a, PyVal):
        v = np.asarray(new)
        return PyVal(type(a.v)(v))
    return new
