"""Program ASTs for the GFI workload engine.

Every node can (a) emit Python source that builds the *real* GenJAX generative function
(`emit`), and (b) run on the *reference interpreter* (`ref`) — pure numpy/scipy float64,
no genjax import — whose combinator semantics are transcribed from the documentation:

  vmap/repeat  N independent calls, element i under index i, results stacked
  scan         carry, y = f(carry, x) in a Python loop; (final carry, stacked ys)
  accumulate / reduce / iterate / iterate_final  their documented reference loops
  masked_iterate(_final)  steps with a False mask contribute no score (and, for _final,
               leave the value unchanged)
  switch       the branch at the clamped index alone
  or_else      if-branch when the flag is true, else-branch otherwise
  mix          categorical(logits) @ "mixture_component" + that component
  mask         flag ? inner : (score 0, no choices, invalid return value)
  dimap        inner on pre(args); return post(args, pre(args), inner return)

Expressions inside static functions are Python source strings over a tiny helper vocabulary
(`S, SQ, POS, UNIT, GT, IDX, VEC, NEG1, POS1, xp`) that has a jnp implementation (real) and a
numpy float64 implementation (reference).
"""

from __future__ import annotations

import itertools

import numpy as np

from vf.prog.tree import EMPTY, RefMask, tindex, tstack, tsum
from vf.ref import dens


class Fragile(Exception):
    """The reference evaluation is numerically too close to a discontinuity (floor / >)
    for a float32 run to be required to agree: the case is discarded, not judged."""


class MissingChoice(Exception):
    def __init__(self, path):
        super().__init__(f"no value for {path}")
        self.path = path


# ----------------------------------------------------------------------------- helpers (ref)

_MARGIN = 2e-3


def _ref_S(v):
    return np.float64(tsum(v))


def _ref_SQ(x):
    return 2.0 * np.tanh(0.3 * np.asarray(x, dtype=np.float64))


def _ref_POS(x):
    return 0.5 + np.abs(np.asarray(x, dtype=np.float64))


def _ref_UNIT(x):
    return 0.05 + 0.9 / (1.0 + np.exp(-np.asarray(x, dtype=np.float64)))


def _ref_NEG1(x):
    return -(1.0 + _ref_POS(x))


def _ref_POS1(x):
    return 1.0 + _ref_POS(x)


def _ref_GT(x, c):
    x = np.asarray(x, dtype=np.float64)
    if np.any(np.abs(x - c) < _MARGIN):
        raise Fragile("GT")
    return x > c


def _ref_IDX(x, n, lo, hi):
    x = (np.asarray(x, dtype=np.float64) + 2.0) * (n / 4.0)
    if np.any(np.abs(x - np.round(x)) < _MARGIN):
        raise Fragile("IDX")
    return np.clip(np.floor(x), lo, hi).astype(np.int32)


def _ref_VEC(x, n, c):
    x = np.asarray(x, dtype=np.float64)
    return x[None, ...] + c * np.arange(n, dtype=np.float64).reshape((n,) + (1,) * x.ndim)


REF_NS = {
    "S": _ref_S,
    "SQ": _ref_SQ,
    "POS": _ref_POS,
    "UNIT": _ref_UNIT,
    "NEG1": _ref_NEG1,
    "POS1": _ref_POS1,
    "GT": _ref_GT,
    "IDX": _ref_IDX,
    "VEC": _ref_VEC,
    "xp": np,
    "MVALUE": lambda m: m.value if m.value is not None else 0.0,
    "None": None,
}


# ----------------------------------------------------------------------------- ref env


class RefEnv:
    """Holds the choice assignment the reference interpreter runs on and what it observed."""

    def __init__(self, assign, fill=None):
        self.assign = assign
        self.fill = fill
        self.terms = {}  # path -> log density of the live choice at path
        self.values = {}  # path -> value used
        self.filled = []  # paths whose value came from `fill`
        self.order = []  # visitation order
        self.dists = {}  # path -> dist name

    def value(self, path, dist, params):
        if path in self.terms:
            raise RuntimeError(f"reference interpreter visited {path} twice")
        if path in self.assign:
            v = self.assign[path]
        elif self.fill is not None:
            v = self.fill(path, dist, params)
            self.filled.append(path)
        else:
            raise MissingChoice(path)
        v = dist.coerce(v)
        lp = dist.logpdf(v, params)
        self.terms[path] = lp
        self.values[path] = v
        self.order.append(path)
        self.dists[path] = dist.name
        return v

    def score(self):
        return float(sum(self.terms.values())) if self.terms else 0.0

    def score_under(self, prefix):
        n = len(prefix)
        return float(sum(lp for p, lp in self.terms.items() if p[:n] == prefix))

    def paths_under(self, prefix):
        n = len(prefix)
        return [p for p in self.order if p[:n] == prefix]


# ----------------------------------------------------------------------------- sites


class Site:
    """A potential random choice of a program: where it lives in the choice map."""

    def __init__(self, pattern, dist):
        self.pattern = tuple(pattern)  # components: str, or ("#", size) for an index level
        self.dist = dist
        self.switchy = None  # 'root' / 'nested': the site sits in a branch of a switch-like node

    @property
    def static_path(self):
        return tuple(c for c in self.pattern if isinstance(c, str))

    @property
    def idx_dims(self):
        return tuple(c[1] for c in self.pattern if not isinstance(c, str))

    def paths(self):
        dims = self.idx_dims
        for idx in itertools.product(*[range(d) for d in dims]):
            it = iter(idx)
            yield tuple(c if isinstance(c, str) else next(it) for c in self.pattern), idx


def addr_components(addr):
    return (addr,) if isinstance(addr, str) else tuple(addr)


# ----------------------------------------------------------------------------- emitter


class Emitter:
    def __init__(self):
        self.lines = []
        self.n = 0

    def fresh(self, base="g"):
        self.n += 1
        return f"{base}{self.n}"

    def add(self, src):
        self.lines.append(src)

    def source(self):
        return "\n".join(self.lines)


# ----------------------------------------------------------------------------- nodes


class Node:
    kind = "Node"
    children: tuple = ()
    arg_specs: list = []
    ret_scalar = False  # True when the return value is a single scalar (usable as switch branch)

    def emit(self, E: Emitter) -> str:
        raise NotImplementedError

    def call_src(self, name, argexprs):
        return f"{name}({', '.join(argexprs)})"

    def ref(self, env: RefEnv, path, args):
        raise NotImplementedError

    def sites(self, prefix=()):
        raise NotImplementedError

    def describe(self):
        return self.kind

    def shape_sig(self):
        """Structural fingerprint (no numeric constants)."""
        return (self.kind,) + tuple(c.shape_sig() for c in self.children)

    def kinds(self):
        out = {self.kind}
        for c in self.children:
            out |= c.kinds()
        return out

    def walk(self):
        yield self
        for c in self.children:
            yield from c.walk()


# -- distributions


class DistSpec:
    def __init__(self, name, attr, param_kinds, kwnames, vkind, vshape_fn=None, lp=None):
        self.name = name
        self.attr = attr
        self.param_kinds = param_kinds
        self.kwnames = kwnames
        self.vkind = vkind  # 'f', 'b', 'i'
        self.vshape_fn = vshape_fn
        self._lp = lp or dens.TABLE[name].logpdf

    def logpdf(self, v, params):
        return self._lp(v, *params)

    def coerce(self, v):
        if self.vkind == "b":
            return np.asarray(v).astype(bool)
        if self.vkind == "i":
            return np.asarray(v).astype(np.int32)
        return np.asarray(v, dtype=np.float64)

    def sample_constraint(self, rng, params):
        """A value inside the support for *any* parameter values (supports of the engine's
        distributions do not depend on the parents by construction)."""
        if self.name == "uniform":
            return np.float64(rng.uniform(-0.95, 0.95))
        v = dens.TABLE[self.name if self.name != "normal_v" else "normal"].sample(rng, *params)
        return self.coerce(v)


# kinds: f real, p positive, u unit interval, n1 -(1+pos), p1 1+pos; vector versions carry a length
DISTS = {
    "normal": DistSpec("normal", "normal", ["f", "p"], ["loc", "scale"], "f"),
    "uniform": DistSpec("uniform", "uniform", ["n1", "p1"], ["low", "high"], "f"),
    "exponential": DistSpec("exponential", "exponential", ["p"], ["rate"], "f"),
    "laplace": DistSpec("laplace", "laplace", ["f", "p"], ["loc", "scale"], "f"),
    "beta": DistSpec("beta", "beta", ["p", "p"], ["concentration1", "concentration0"], "f"),
    "gamma": DistSpec("gamma", "gamma", ["p", "p"], ["concentration", "rate"], "f"),
    "flip": DistSpec("flip", "flip", ["u"], None, "b"),
    "bernoulli": DistSpec("bernoulli", "bernoulli", ["f"], ["logits"], "i"),
    "categorical": DistSpec("categorical", "categorical", ["fv"], ["logits"], "i"),
    "poisson": DistSpec("poisson", "poisson", ["p"], ["rate"], "f"),
    "mv_normal_diag": DistSpec("mv_normal_diag", "mv_normal_diag", ["fv", "pv"], ["loc", "scale_diag"], "f"),
    "normal_v": DistSpec("normal_v", "normal", ["fv", "p"], ["loc", "scale"], "f", lp=dens.lp_normal),
}
FLOAT_SCALAR_DISTS = ["normal", "uniform", "exponential", "laplace", "beta", "gamma"]
DISCRETE_DISTS = ["flip", "bernoulli", "categorical", "poisson"]
VECTOR_DISTS = ["mv_normal_diag", "normal_v"]


def spec(shape, kind):
    return ("a", tuple(shape), kind)


class Dist(Node):
    kind = "Dist"

    def __init__(self, name, veclen=3, use_kw=False):
        self.d = DISTS[name]
        self.name = name
        self.veclen = veclen
        self.use_kw = bool(use_kw and self.d.kwnames)
        self.arg_specs = []
        for k in self.d.param_kinds:
            if k.endswith("v"):
                self.arg_specs.append(spec((veclen,), k[0]))
            else:
                self.arg_specs.append(spec((), k))
        self.ret_scalar = name not in VECTOR_DISTS
        self.vshape = () if self.ret_scalar else (veclen,)

    def emit(self, E):
        return f"genjax.{self.d.attr}"

    def call_src(self, name, argexprs):
        if self.use_kw:
            return f"{name}({', '.join(f'{k}={e}' for k, e in zip(self.d.kwnames, argexprs))})"
        if self.name in ("bernoulli", "categorical"):
            # positional use is the deprecated implicit-logits form; use the keyword
            return f"{name}({self.d.kwnames[0]}={argexprs[0]})"
        return f"{name}({', '.join(argexprs)})"

    def ref(self, env, path, args):
        return env.value(path, self.d, tuple(args))

    def sites(self, prefix=()):
        return [Site(prefix, self)]

    def describe(self):
        return self.name + ("[kw]" if self.use_kw else "")

    def shape_sig(self):
        return ("Dist", self.name)


# -- static language


class Stmt:
    def __init__(self, var, callee, argexprs, addr):
        self.var = var
        self.callee = callee
        self.argexprs = list(argexprs)
        self.addr = addr


class Static(Node):
    kind = "Static"

    def __init__(self, params, stmts, ret_src, ret_scalar=True, arg_specs=None, doc=""):
        self.params = list(params)  # names
        self.arg_specs = list(arg_specs) if arg_specs is not None else [spec((), "f")] * len(params)
        self.stmts = list(stmts)
        self.ret_src = ret_src
        self.ret_scalar = ret_scalar
        self.children = tuple(s.callee for s in self.stmts)
        self._codes = None
        self.fname = None

    def emit(self, E):
        names = [s.callee.emit(E) for s in self.stmts]
        fname = E.fresh("f")
        self.fname = fname
        lines = [f"def {fname}({', '.join(self.params)}):"]
        for s, nm in zip(self.stmts, names):
            call = s.callee.call_src(nm, s.argexprs)
            lines.append(f"    {s.var} = {call} @ {s.addr!r}")
        lines.append(f"    return {self.ret_src}")
        lines.append(f"{fname} = genjax.gen({fname})")
        E.add("\n".join(lines))
        return fname

    def _compile(self):
        if self._codes is None:
            self._codes = (
                [[compile(e, "<argexpr>", "eval") for e in s.argexprs] for s in self.stmts],
                compile(self.ret_src, "<ret>", "eval"),
            )
        return self._codes

    def ref(self, env, path, args):
        argcodes, retcode = self._compile()
        ns = dict(REF_NS)
        if len(args) != len(self.params):
            raise RuntimeError(f"arity: {len(args)} vs {self.params}")
        ns.update(zip(self.params, args))
        for s, codes in zip(self.stmts, argcodes):
            vals = tuple(eval(c, ns) for c in codes)
            ns[s.var] = s.callee.ref(env, path + addr_components(s.addr), vals)
        return eval(retcode, ns)

    def sites(self, prefix=()):
        out = []
        for s in self.stmts:
            out.extend(s.callee.sites(prefix + addr_components(s.addr)))
        return out

    def describe(self):
        body = "; ".join(f"{s.var}={s.callee.describe()}({','.join(s.argexprs)})@{s.addr!r}" for s in self.stmts)
        return f"gen({','.join(self.params)}){{{body}; return {self.ret_src}}}"

    def shape_sig(self):
        return ("Static", len(self.stmts)) + tuple(
            (isinstance(s.addr, tuple), s.callee.shape_sig()) for s in self.stmts
        )


# -- vector combinators


def _n_from(args, in_axes):
    for a, ax in zip(args, in_axes):
        if ax is not None:
            leaves = _leaves(a)
            return int(np.asarray(leaves[0]).shape[ax])
    raise RuntimeError("no mapped axis")


def _leaves(a):
    if isinstance(a, (tuple, list)):
        out = []
        for x in a:
            out.extend(_leaves(x))
        return out
    if a is None:
        return []
    return [a]


def _map_spec(s, n, axis=0):
    if s[0] == "a":
        sh = list(s[1])
        sh.insert(axis, n)
        return ("a", tuple(sh), s[2])
    if s[0] == "t":
        return ("t", [_map_spec(x, n) for x in s[1]])
    return s


class Vmap(Node):
    kind = "Vmap"

    def __init__(self, inner, in_axes, n, method_form=True):
        self.inner = inner
        self.in_axes = tuple(in_axes)
        self.n = n
        self.method_form = method_form
        self.children = (inner,)
        self.arg_specs = [
            _map_spec(s, n, ax) if ax is not None else s for s, ax in zip(inner.arg_specs, self.in_axes)
        ]

    def emit(self, E):
        inner = self.inner.emit(E)
        nm = E.fresh("vm")
        ia = self.in_axes
        ia_src = "0" if all(a == 0 for a in ia) and len(ia) == 1 else repr(tuple(ia))
        if self.method_form:
            E.add(f"{nm} = {inner}.vmap(in_axes={ia_src})")
        else:
            E.add(f"{nm} = genjax.vmap(in_axes={ia_src})({inner})")
        return nm

    def ref(self, env, path, args):
        n = _n_from(args, self.in_axes)
        rets = []
        for i in range(n):
            a_i = tuple(
                (tindex(a, i) if ax == 0 else np.take(np.asarray(a), i, axis=ax)) if ax is not None else a
                for a, ax in zip(args, self.in_axes)
            )
            rets.append(self.inner.ref(env, path + (i,), a_i))
        if n == 0:
            return EMPTY
        return tstack(rets)

    def sites(self, prefix=()):
        return self.inner.sites(prefix + (("#", self.n),))

    def describe(self):
        return f"vmap[{self.in_axes},n={self.n}]({self.inner.describe()})"

    def shape_sig(self):
        return ("Vmap", tuple(a is None for a in self.in_axes), self.inner.shape_sig())


class Repeat(Node):
    kind = "Repeat"

    def __init__(self, inner, n):
        self.inner = inner
        self.n = n
        self.children = (inner,)
        self.arg_specs = list(inner.arg_specs)

    def emit(self, E):
        inner = self.inner.emit(E)
        nm = E.fresh("rp")
        E.add(f"{nm} = {inner}.repeat(n={self.n})")
        return nm

    def ref(self, env, path, args):
        rets = [self.inner.ref(env, path + (i,), args) for i in range(self.n)]
        return tstack(rets) if rets else EMPTY

    def sites(self, prefix=()):
        return self.inner.sites(prefix + (("#", self.n),))

    def describe(self):
        return f"repeat[{self.n}]({self.inner.describe()})"

    def shape_sig(self):
        return ("Repeat", self.inner.shape_sig())


class Scan(Node):
    """kernel: (carry, x) -> (carry, y).  args: (carry0, xs) ; xs may be None (length given)."""

    kind = "Scan"

    def __init__(self, kernel, n, xs_none=False, give_length=True):
        self.kernel = kernel
        self.n = n
        self.xs_none = xs_none
        self.give_length = give_length or xs_none
        self.children = (kernel,)
        cs, xs = kernel.arg_specs
        self.arg_specs = [cs, ("none",) if xs_none else _map_spec(xs, n)]

    def emit(self, E):
        k = self.kernel.emit(E)
        nm = E.fresh("sc")
        if self.give_length:
            E.add(f"{nm} = {k}.scan(n={self.n})")
        else:
            E.add(f"{nm} = genjax.scan()({k})")
        return nm

    def ref(self, env, path, args):
        carry, xs = args
        ys = []
        for i in range(self.n):
            x = None if xs is None else tindex(xs, i)
            carry, y = self.kernel.ref(env, path + (i,), (carry, x))
            ys.append(y)
        return (carry, tstack(ys) if ys else EMPTY)

    def sites(self, prefix=()):
        return self.kernel.sites(prefix + (("#", self.n),))

    def describe(self):
        return f"scan[n={self.n}{',xs=None' if self.xs_none else ''}]({self.kernel.describe()})"

    def shape_sig(self):
        return ("Scan", self.xs_none, self.kernel.shape_sig())


class Accumulate(Node):
    """f: (c, x) -> c ; args (init, xs) ; returns [init, c1, ..., cn]."""

    kind = "Accumulate"

    def __init__(self, f, n):
        self.f = f
        self.n = n
        self.children = (f,)
        cs, xs = f.arg_specs
        self.arg_specs = [cs, _map_spec(xs, n)]

    def emit(self, E):
        f = self.f.emit(E)
        nm = E.fresh("ac")
        E.add(f"{nm} = {f}.accumulate()")
        return nm

    def ref(self, env, path, args):
        carry, xs = args
        seen = [carry]
        for i in range(self.n):
            carry = self.f.ref(env, path + (i,), (carry, tindex(xs, i)))
            seen.append(carry)
        return tstack(seen)

    def sites(self, prefix=()):
        return self.f.sites(prefix + (("#", self.n),))

    def describe(self):
        return f"accumulate[n={self.n}]({self.f.describe()})"


class Reduce(Accumulate):
    kind = "Reduce"

    def emit(self, E):
        f = self.f.emit(E)
        nm = E.fresh("rd")
        E.add(f"{nm} = {f}.reduce()")
        return nm

    def ref(self, env, path, args):
        carry, xs = args
        for i in range(self.n):
            carry = self.f.ref(env, path + (i,), (carry, tindex(xs, i)))
        return carry

    def describe(self):
        return f"reduce[n={self.n}]({self.f.describe()})"


class Iterate(Node):
    """f: (c) -> c ; args (init,) ; returns [init, f(init), ...] (n+1 entries)."""

    kind = "Iterate"

    def __init__(self, f, n):
        self.f = f
        self.n = n
        self.children = (f,)
        self.arg_specs = list(f.arg_specs)

    def emit(self, E):
        f = self.f.emit(E)
        nm = E.fresh("it")
        E.add(f"{nm} = {f}.iterate(n={self.n})")
        return nm

    def ref(self, env, path, args):
        (x,) = args
        seen = [x]
        for i in range(self.n):
            x = self.f.ref(env, path + (i,), (x,))
            seen.append(x)
        return tstack(seen)

    def sites(self, prefix=()):
        return self.f.sites(prefix + (("#", self.n),))

    def describe(self):
        return f"iterate[n={self.n}]({self.f.describe()})"


class IterateFinal(Iterate):
    kind = "IterateFinal"

    def emit(self, E):
        f = self.f.emit(E)
        nm = E.fresh("itf")
        E.add(f"{nm} = {f}.iterate_final(n={self.n})")
        return nm

    def ref(self, env, path, args):
        (x,) = args
        for i in range(self.n):
            x = self.f.ref(env, path + (i,), (x,))
        return x

    def describe(self):
        return f"iterate_final[n={self.n}]({self.f.describe()})"


class MaskedIterateFinal(Node):
    """f: (c) -> c ; args (init, masks[n]).  A False step contributes no score and leaves the
    value unchanged (documented)."""

    kind = "MaskedIterateFinal"

    def __init__(self, f, n):
        self.f = f
        self.n = n
        self.children = (f,)
        self.arg_specs = [f.arg_specs[0], spec((n,), "b")]

    def emit(self, E):
        f = self.f.emit(E)
        nm = E.fresh("mif")
        E.add(f"{nm} = {f}.masked_iterate_final()")
        return nm

    def ref(self, env, path, args):
        x, masks = args
        for i in range(self.n):
            if bool(np.asarray(masks)[i]):
                x = self.f.ref(env, path + (i,), (x,))
        return x

    def sites(self, prefix=()):
        return self.f.sites(prefix + (("#", self.n),))

    def describe(self):
        return f"masked_iterate_final[n={self.n}]({self.f.describe()})"


class MaskedIterate(MaskedIterateFinal):
    """Returns the list of values seen.  The documentation does not define the value recorded
    after a masked-off step, so the reference takes each step's *input* from the observed
    list (`observed_seen`, installed by the monitor) and judges only mask-True steps."""

    kind = "MaskedIterate"

    def __init__(self, f, n):
        super().__init__(f, n)
        self.observed_seen = None

    def emit(self, E):
        f = self.f.emit(E)
        nm = E.fresh("mi")
        E.add(f"{nm} = {f}.masked_iterate()")
        return nm

    def ref(self, env, path, args):
        x, masks = args
        seen = [x]
        valid = [True]
        obs = self.observed_seen
        for i in range(self.n):
            if bool(np.asarray(masks)[i]):
                x = self.f.ref(env, path + (i,), (x,))
                seen.append(x)
                valid.append(True)
            else:
                # unspecified: continue from what the implementation reports, if known
                if obs is not None:
                    x = tindex(obs, i + 1)
                seen.append(x)
                valid.append(False)
        return RefMask(tstack(seen), np.asarray(valid))

    def describe(self):
        return f"masked_iterate[n={self.n}]({self.f.describe()})"


# -- branching


def _mark_switchy(node, sites):
    tag = "root" if getattr(node, "is_root", False) else "nested"
    for st in sites:
        if st.switchy != "nested":
            st.switchy = tag
    return sites



class Switch(Node):
    kind = "Switch"

    def __init__(self, branches, method_form=True, hostile_idx=False):
        self.branches = tuple(branches)
        self.children = self.branches
        self.method_form = method_form
        k = len(self.branches)
        self.arg_specs = [spec((), f"i:{k}" + ("!" if hostile_idx else ""))] + [
            ("t", list(b.arg_specs)) for b in self.branches
        ]
        self.ret_scalar = all(b.ret_scalar for b in self.branches)

    def emit(self, E):
        bs = [b.emit(E) for b in self.branches]
        nm = E.fresh("sw")
        if self.method_form:
            E.add(f"{nm} = {bs[0]}.switch({', '.join(bs[1:])})")
        else:
            E.add(f"{nm} = genjax.switch({', '.join(bs)})")
        return nm

    def clamp(self, idx):
        return int(np.clip(int(np.asarray(idx)), 0, len(self.branches) - 1))

    def ref(self, env, path, args):
        k = self.clamp(args[0])
        return self.branches[k].ref(env, path, tuple(args[1 + k]))

    def sites(self, prefix=()):
        out = []
        for b in self.branches:
            out.extend(b.sites(prefix))
        return _mark_switchy(self, out)

    def describe(self):
        return "switch(" + " | ".join(b.describe() for b in self.branches) + ")"


class OrElse(Node):
    kind = "OrElse"

    def __init__(self, a, b):
        self.a, self.b = a, b
        self.children = (a, b)
        self.arg_specs = [spec((), "b"), ("t", list(a.arg_specs)), ("t", list(b.arg_specs))]
        self.ret_scalar = a.ret_scalar and b.ret_scalar

    def emit(self, E):
        a, b = self.a.emit(E), self.b.emit(E)
        nm = E.fresh("oe")
        E.add(f"{nm} = {a}.or_else({b})")
        return nm

    def ref(self, env, path, args):
        flag, aa, ba = args
        if bool(np.asarray(flag)):
            return self.a.ref(env, path, tuple(aa))
        return self.b.ref(env, path, tuple(ba))

    def sites(self, prefix=()):
        return _mark_switchy(self, self.a.sites(prefix) + self.b.sites(prefix))

    def describe(self):
        return f"or_else({self.a.describe()} , {self.b.describe()})"


class Mix(Node):
    kind = "Mix"

    def __init__(self, comps):
        self.comps = tuple(comps)
        self.children = self.comps
        k = len(self.comps)
        self.cat = DISTS["categorical"]
        self.arg_specs = [spec((k,), "f")] + [("t", list(c.arg_specs)) for c in self.comps]
        self.ret_scalar = all(c.ret_scalar for c in self.comps)
        self._catnode = Dist("categorical", veclen=k)

    def emit(self, E):
        cs = [c.emit(E) for c in self.comps]
        nm = E.fresh("mx")
        E.add(f"{nm} = {cs[0]}.mix({', '.join(cs[1:])})")
        return nm

    def ref(self, env, path, args):
        logits = args[0]
        k = int(env.value(path + ("mixture_component",), self.cat, (logits,)))
        k = int(np.clip(k, 0, len(self.comps) - 1))
        return self.comps[k].ref(env, path + ("component_sample",), tuple(args[1 + k]))

    def sites(self, prefix=()):
        out = []
        for c in self.comps:
            out.extend(c.sites(prefix + ("component_sample",)))
        out = _mark_switchy(self, out)
        return [Site(prefix + ("mixture_component",), self._catnode)] + out

    def describe(self):
        return "mix(" + " | ".join(c.describe() for c in self.comps) + ")"


class Mask(Node):
    kind = "Mask"

    def __init__(self, inner):
        self.inner = inner
        self.children = (inner,)
        self.arg_specs = [spec((), "b")] + list(inner.arg_specs)

    def emit(self, E):
        i = self.inner.emit(E)
        nm = E.fresh("mk")
        E.add(f"{nm} = {i}.mask()")
        return nm

    def ref(self, env, path, args):
        flag = bool(np.asarray(args[0]))
        if flag:
            r = self.inner.ref(env, path, tuple(args[1:]))
            if isinstance(r, RefMask):
                # a mask of a masked value is one mask whose flag is the conjunction (Mask.build)
                return RefMask(r.value, np.logical_and(np.asarray(r.flag), True))
            return RefMask(r, True)
        return RefMask(None, False)

    def sites(self, prefix=()):
        return self.inner.sites(prefix)

    def describe(self):
        return f"mask({self.inner.describe()})"


class Dimap(Node):
    """pre_src: source of a tuple expression over the outer params; post_src: expression over
    ARGS (outer args tuple), XF (pre(args) tuple) and RET (inner return)."""

    kind = "Dimap"

    def __init__(self, inner, params, arg_specs, pre_src, post_src, form="dimap", ret_scalar=True):
        self.inner = inner
        self.children = (inner,)
        self.params = list(params)
        self.arg_specs = list(arg_specs)
        self.pre_src = pre_src
        self.post_src = post_src
        self.form = form  # dimap | map | contramap
        self.ret_scalar = ret_scalar
        self._codes = None

    def emit(self, E):
        i = self.inner.emit(E)
        nm = E.fresh("dm")
        ps = ", ".join(self.params)
        if self.form == "map":
            E.add(f"def {nm}_post(RET):\n    return {self.post_src}\n{nm} = {i}.map({nm}_post)")
        elif self.form == "contramap":
            E.add(f"def {nm}_pre({ps}):\n    return {self.pre_src}\n{nm} = {i}.contramap({nm}_pre)")
        else:
            E.add(
                f"def {nm}_pre({ps}):\n    return {self.pre_src}\n"
                f"def {nm}_post(ARGS, XF, RET):\n    return {self.post_src}\n"
                f"{nm} = {i}.dimap(pre={nm}_pre, post={nm}_post)"
            )
        return nm

    def _compile(self):
        if self._codes is None:
            self._codes = (compile(self.pre_src, "<pre>", "eval"), compile(self.post_src, "<post>", "eval"))
        return self._codes

    def ref(self, env, path, args):
        pre, post = self._compile()
        ns = dict(REF_NS)
        ns.update(zip(self.params, args))
        if self.form == "map":
            xf = tuple(args)
        else:
            xf = tuple(eval(pre, ns))
        ret = self.inner.ref(env, path, xf)
        if self.form == "contramap":
            return ret
        ns2 = dict(REF_NS)
        ns2.update({"ARGS": tuple(args), "XF": xf, "RET": ret})
        return eval(post, ns2)

    def sites(self, prefix=()):
        return self.inner.sites(prefix)

    def describe(self):
        return f"{self.form}[pre={self.pre_src if self.form!='map' else '-'};post={self.post_src if self.form!='contramap' else '-'}]({self.inner.describe()})"

    def shape_sig(self):
        return ("Dimap", self.form, self.inner.shape_sig())
