#!/bin/sh
# MANIFEST.setup_cmd: nothing to fetch or compile; sanity-check the toolchain and our package.
HERE="$(cd "$(dirname "$0")" && pwd)"
cd "$HERE" || exit 1
mkdir -p evidence/replays
env PYTHONPATH="$HERE" JAX_PLATFORMS=cpu PYTHONDONTWRITEBYTECODE=1 /venv/bin/python -m vf.selftest || exit 1
echo "setup ok"
